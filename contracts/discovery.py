"""Sidecar contracts for frappy/protocol/discovery.py (C19)."""
from pyvc.native import *      # noqa: F401,F403

CONTEXT_FILE = 'frappy/protocol/discovery.py'
SOURCES = ['frappy/protocol/discovery.py', 'frappy/errors.py']
GHOSTS = ['udp_sent']
ASSUMPTIONS = [
    'A3/A6/A7 as for the other properties',
    'socket.recvfrom(n) returns at most n bytes or raises OSError; sendto does not raise (stated domain: sending a datagram'
    ' to the peer that just sent one succeeds)',
    'json.loads raises only ValueError (JSONDecodeError) on texts of at most 1024 characters; on longer texts deep nesting may'
    ' exhaust the interpreter stack (RecursionError) - CPython behaviour, measured, not proved',
    'UDPListener._getMessage is abstract here (some bytes); the 508 byte budget is checked by the bounded stand-in',
]

CLASSES = {
    'Socket': dict(fields={}),
    'UDPListener': dict(fields={'equipment_id': 'any', 'description': 'str', 'firmware': 'str', 'ports': 'list:int', 'running': 'bool',
                                'is_enabled': 'bool', 'startup_broadcast': 'any', 'sock': 'Socket', 'log': 'any'}),
}

def IdentityFits(l):
    """(bounded only) the message without description fits the datagram budget"""
    import json
    return len(json.dumps({'SECoP': 'node', 'port': 65535, 'equipment_id': l.equipment_id, 'firmware': l.firmware, 'description': ''},
                          ensure_ascii=False, separators=(',', ':')).encode('utf-8')) <= 508


def Fits(l, port):
    return len(l._getMessage(port)) <= 508


def AnswerOk(data, l):
    """(bounded only) an answer is a JSON object naming this node, within the datagram budget"""
    import json
    if len(data) > 508:
        return False
    d = json.loads(data.decode('utf-8'))
    return d.get('SECoP') == 'node' and d.get('equipment_id') == l.equipment_id and d.get('port') in l.ports \
        and is_str(d.get('description')) and is_str(d.get('firmware'))


def Answers(l, requests, sent0, sent1):
    """(bounded only) exactly the discover requests are answered, once per port, to the sender, in order"""
    import json
    new = sent1[len(sent0):]
    expect = []
    for msg, addr in requests:
        try:
            r = json.loads(msg[:1024].decode('utf-8'))
        except ValueError:
            continue
        if isinstance(r, dict) and r.get('SECoP') == 'discover':
            expect.extend([addr] * len(l.ports))
    return [a for _d, a in new] == (expect if l.is_enabled else []) and all(AnswerOk(d, l) for d, _a in new)


CONTRACTS = [
    dict(key='UDPListener.__init__', vc=False, file='frappy/protocol/discovery.py', func='UDPListener.__init__', serves=['C19'],
         self_type='UDPListener', requires=[],
         ensures={'budget': 'not self.is_enabled or (Fits(self, 65535) and all(Fits(self, p) for p in self.ports))',
                  'enabled_when_identity_fits': 'self.is_enabled == IdentityFits(self)',
                  'description_prefix': 'is_str(self.description) and (description or "").startswith(self.description)'},
         raises='never'),
    dict(key='Socket.recvfrom', file=None, func=None, signature='self, n', serves=[], trusted=True, requires=[],
         ensures={'pair': 'is_tuple(result) and len(result) == 2 and is_bytes(result[0]) and len(result[0]) <= n'},
         raises={'cls': 'issubclass(exc, OSError)'}),
    dict(key='Socket.sendto', file=None, func=None, signature='self, data, addr', serves=[], trusted=True,
         requires=['is_bytes(data)'], ghost_modifies=['udp_sent'],
         ensures={'logged': 'udp_sent == old(udp_sent) + [(data, addr)]'}, raises='never'),
    dict(key='json.loads', file=None, func=None, signature='s', serves=[], trusted=True, requires=['is_str(s)'],
         ensures={}, raises={'cls': 'issubclass(exc, ValueError) or (issubclass(exc, RecursionError) and len(s) > 1024)'}),
    dict(key='UDPListener._getMessage', file=None, func=None, signature='self, port', serves=[], trusted=True, requires=[],
         ensures={'bytes': 'is_bytes(result)'}, raises='never'),
    dict(key='UDPListener.run', file='frappy/protocol/discovery.py', func='UDPListener.run', serves=['C19'],
         self_type='UDPListener', requires=['inv(self)'], modifies=['running'], ghost_modifies=['udp_sent'],
         ensures={'inv': 'inv(self)'}, raises='never',
         bounded_ensures={'answers': 'Answers(self, requests, old(udp_sent), udp_sent)'},
         reach={'answered': 'len(udp_sent) > len(old(udp_sent))'}),
]
LOOPS = {
    'UDPListener.run#0': dict(header='self.running and self.is_enabled', ghost=['udp_sent'], invariant={'inv': 'inv(self)'}),
    'UDPListener.run#1': dict(header='self.ports', ghost=['udp_sent'], invariant={'inv': 'inv(self)'}),
    'UDPListener.run#2': dict(header='self.ports', ghost=['udp_sent'], invariant={'inv': 'inv(self)'}),
}
register(globals())
