"""Sidecar contracts for the self-description (C06) - bounded stand-in only (the dispatcher routing part is proved under C04)."""
from pyvc.native import *      # noqa: F401,F403

CONTEXT_FILE = 'frappy/protocol/dispatcher.py'
SOURCES = ['frappy/protocol/dispatcher.py', 'frappy/secnode.py', 'frappy/errors.py']
GHOSTS = []
ASSUMPTIONS = [
    'the description is assembled from generated classes, properties and string / JSON operations: no deductive contract in reach of the'
    ' verifier (string theory, class generation); the clauses below are evaluated natively on real nodes',
    'the request routing that makes undescribed accessibles unreachable for read / change / do is proved under C04 (contracts/node.py)',
]
CLASSES = {}


def Accessibles(descr, modname):
    return descr['modules'].get(modname, {}).get('accessibles', {})


def Described(descr, specifier):
    """the specifier names a described module or a described accessible of a described module"""
    if specifier is None or specifier == '' or specifier == '.':
        return True
    mod, _, acc = specifier.partition(':')
    if mod not in descr['modules']:
        return False
    return acc == '' and ':' not in specifier or acc in Accessibles(descr, mod)


def IsParameter(descr, specifier):
    mod, _, acc = specifier.partition(':')
    return acc in Accessibles(descr, mod) and Accessibles(descr, mod)[acc]['datainfo'].get('type') != 'command'


def Full(action, spec):
    """SECoP: `read m` means m:value, `change m` means m:target"""
    if spec and ':' not in spec and action in ('read', 'change'):
        return spec + (':value' if action == 'read' else ':target')
    return spec


def Honoured(descr, msg, result):
    action, spec = msg[0], Full(msg[0], msg[1])
    if action in ('read', 'change'):
        if not (spec and ':' in spec and IsParameter(descr, spec)):
            return False
        if action == 'change' and Accessibles(descr, spec.split(':')[0])[spec.split(':')[1]].get('readonly', False):
            return False
        return True
    if action == 'do':
        return bool(spec) and ':' in spec and Described(descr, spec) and not IsParameter(descr, spec)
    if action == 'activate':
        return Described(descr, spec) and (not spec or ':' not in spec or IsParameter(descr, spec))
    return True


def TargetDescribed(descr, msg):
    """the request addresses something the description lists, with the action that fits its kind"""
    action, spec = msg[0], Full(msg[0], msg[1])
    if action in ('read', 'change'):
        return bool(spec) and ':' in spec and IsParameter(descr, spec)
    if action == 'do':
        return bool(spec) and ':' in spec and Described(descr, spec) and not IsParameter(descr, spec)
    if action == 'activate':
        return Described(descr, spec) and (not spec or ':' not in spec or IsParameter(descr, spec))
    return True


def RefusalAsDescribed(descr, msg, exc):
    """what is described exists for the client: a NoSuch... refusal only for something the description does not list, and a
    ReadOnly refusal only for a parameter described as readonly (the flags predict whether a change is refused)"""
    name = exc.__name__
    if name in ('NoSuchModuleError', 'NoSuchParameterError', 'NoSuchCommandError') and TargetDescribed(descr, msg):
        return False
    if name == 'ReadOnlyError':
        spec = Full(msg[0], msg[1])
        return msg[0] == 'change' and IsParameter(descr, spec) and \
            Accessibles(descr, spec.split(':')[0])[spec.split(':')[1]].get('readonly', False)
    return True


def DescribedAccepts(descr, msg):
    """the described datainfo, rebuilt as a client does, accepts the payload"""
    from frappy.datatypes import get_datatype
    spec = Full(msg[0], msg[1])
    info = Accessibles(descr, spec.split(':')[0])[spec.split(':')[1]]['datainfo']
    dt = get_datatype(info)
    try:
        dt.validate(dt.import_value(msg[2]))
        return True
    except Exception:
        return False


def PayloadVerdictAsDescribed(descr, msg, exc):
    """each described datainfo accepts and rejects the same payloads as the node: a change of a described writable parameter is
    accepted only with a payload the description accepts, and refused as bad value only with one it rejects"""
    if msg[0] != 'change' or not TargetDescribed(descr, msg):
        return True
    if exc is None:
        return DescribedAccepts(descr, msg)
    if exc.__name__ in ('WrongTypeError', 'RangeError', 'BadValueError'):
        return not DescribedAccepts(descr, msg)
    return True


def ConstantAsDescribed(descr, msg, result):
    if msg[0] != 'read':
        return True
    spec = Full('read', msg[1])
    info = Accessibles(descr, spec.split(':')[0])[spec.split(':')[1]]
    return 'constant' not in info or result[2][0] == info['constant']


def DescriptionExact(d, descr):
    """exactly the exported modules and accessibles, under their wire names; strict JSON; stable"""
    import json

    def bad(c):
        raise ValueError(c)
    json.loads(json.dumps(descr), parse_constant=bad)
    node = d.secnode
    if sorted(descr['modules']) != sorted(n for n, m in node.modules.items() if m.export):
        return False
    for n, minfo in descr['modules'].items():
        m = node.modules[n]
        want = sorted(a.export for a in m.accessibles.values() if a.export)
        if sorted(minfo['accessibles']) != want:
            return False
    return json.dumps(descr, sort_keys=True) == json.dumps(node.get_descriptive_data(''), sort_keys=True)


CONTRACTS = [
    dict(key='Dispatcher.handle_request', vc=False, file='frappy/protocol/dispatcher.py', func='Dispatcher.handle_request', serves=['C06'],
         self_type='Dispatcher', requires=[],
         ensures={'only_described': 'Honoured(description, msg, result)',
                  'constant': 'ConstantAsDescribed(description, msg, result)',
                  'payload_verdict': 'PayloadVerdictAsDescribed(description, msg, None)',
                  'not_subscribed_undescribed': 'all(Described(description, e) and (":" not in e or IsParameter(description, e)) for e in self._subscriptions)'},
         raises={'payload_verdict': 'PayloadVerdictAsDescribed(description, msg, exc)',
                 'described_is_served': 'RefusalAsDescribed(description, msg, exc)',
                 'not_subscribed_undescribed': 'all(Described(description, e) and (":" not in e or IsParameter(description, e)) for e in self._subscriptions)'}),
    dict(key='Dispatcher.handle_describe', vc=False, file='frappy/protocol/dispatcher.py', func='Dispatcher.handle_describe', serves=['C06'],
         self_type='Dispatcher', requires=[],
         ensures={'exact': 'DescriptionExact(self, result[2])'}, raises='never'),
]
LOOPS = {}
register(globals())
