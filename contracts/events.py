"""Sidecar contracts for event subscriptions of the dispatcher (C08)."""
from pyvc.native import *      # noqa: F401,F403

CONTEXT_FILE = 'frappy/protocol/dispatcher.py'
SOURCES = ['frappy/protocol/dispatcher.py', 'frappy/errors.py']
UFS = {'module_of': (['val', 'val'], 'val', 'Module'), 'GOT': (['val', 'val'], 'bool')}
GHOSTS = ['sent']
ASSUMPTIONS = [
    'A3/A6/A7 as for the other properties',
    'connections are objects compared by identity; conn.send_reply does not raise and records the message in the ghost log `sent`',
    'one thread at a time (the dispatcher lock serialises requests; updates from poll threads interleave only between the'
    ' contract-level steps - the interleavings themselves are not within reach of sequential contracts)',
]

CLASSES = {
    'Conn': dict(fields={}),
    'Parameter': dict(fields={'export': 'any', 'name': 'str', 'readerror': 'any', 'timestamp': 'any'}),
    'Module': dict(fields={'name': 'str', 'accessiblename2attr': 'dict:str', 'parameters': 'dict:Parameter', 'accessibles': 'dict'},
                   elem_inv={'accessiblename2attr': "v != ''"}),      # attribute names are not empty
    'SecNode': dict(fields={'modules': 'dict:Module', 'export': 'list:str'}),
    'Dispatcher': dict(fields={'_connections': 'list:Conn', '_active_connections': 'set[obj]:Conn', '_subscriptions': 'dict:set[obj]:Conn',
                               'secnode': 'SecNode', 'log': 'any'}, inv=['inv(self.secnode)']),
}


def Subscribed(d, event, conn):
    return event in d._subscriptions and conn in d._subscriptions[event]


def SubscribedIn(subs, event, conn):
    return event in subs and conn in subs[event]


def Untouched(subs1, subs0, e):
    """the subscriber set of event e is the same as before"""
    return (e in subs1) == (e in subs0) and implies(e in subs0, same_value(subs1[e], subs0[e]))


def OnlyConnRemoved(subs1, subs0, e, conn):
    """from the subscriber set of e exactly conn was removed (if it was there)"""
    return (e in subs1) == (e in subs0) and implies(e in subs0, dict_same_except(subs1[e], subs0[e], conn) and conn not in subs1[e])


def Affected(eventname, e):
    """unsubscribing a module also drops the more specific module:parameter subscriptions"""
    return e == eventname or (':' not in eventname and e.startswith(eventname + ':'))


def OtherEventsUntouched(subs1, subs0, eventname):
    return forall_str(lambda e: implies(e != eventname, Untouched(subs1, subs0, e)))


def UnsubscribedFrom(subs1, subs0, eventname, conn):
    return forall_str(lambda e: implies(Affected(eventname, e), OnlyConnRemoved(subs1, subs0, e, conn)))


def UnaffectedUntouched(subs1, subs0, eventname):
    return forall_str(lambda e: implies(not Affected(eventname, e), Untouched(subs1, subs0, e)))


def RemovedEverywhere(subs1, subs0, conn):
    return forall_str(lambda e: OnlyConnRemoved(subs1, subs0, e, conn))


def DonePrefix(subs1, subs0, done, eventname, conn):
    return forall_str(lambda e: implies(e in done and e.startswith(eventname + ':'), OnlyConnRemoved(subs1, subs0, e, conn)))


def RestPrefix(subs1, subs0, done, eventname):
    return forall_str(lambda e: implies(not (e in done and e.startswith(eventname + ':')), Untouched(subs1, subs0, e)))


def DoneAll(subs1, subs0, done, conn):
    return forall_str(lambda e: implies(e in done, OnlyConnRemoved(subs1, subs0, e, conn)))


def RestAll(subs1, subs0, done):
    return forall_str(lambda e: implies(e not in done, Untouched(subs1, subs0, e)))


def WireParameter(m, name):
    """name is the wire name of a parameter of module m"""
    return name in m.accessiblename2attr and m.accessiblename2attr[name] in m.parameters


def DescribedParameterSpec(d, specifier):
    """the specifier names an exported module, or module:<wire name of one of its parameters>"""
    if ':' not in specifier:
        return specifier in d.secnode.export
    mod = specifier.split(':', 1)[0]
    return mod in d.secnode.export and module_of(d.secnode, mod) is not None \
        and WireParameter(module_of(d.secnode, mod), specifier.split(':', 1)[1])


def InnerOf(subs, e):
    return subs[e] if e in subs else set()


def GotView(s1, s0, conn):
    return forall_obj(lambda c: GOT(s1, c) == (GOT(s0, c) or same_object(c, conn)))


def DeliveredToListeners(d, msg, s0, s1):
    """exactly the listeners of the event were sent something by this call"""
    return forall_obj(lambda c: GOT(s1, c) == (GOT(s0, c) or Listeners(d, msg, c)))


def DeliveredSoFar(done, s0, s1):
    return forall_obj(lambda c: GOT(s1, c) == (GOT(s0, c) or c in done))


def Listeners(d, msg, c):
    """a connection gets an event iff it subscribed the parameter, the module, or everything"""
    return (Subscribed(d, msg[1], c) or Subscribed(d, msg[1].split(':', 1)[0], c) or c in d._active_connections)


def DeliveredTo(d, msg, new):
    """(bounded only) every listener got the message exactly once, nobody else got anything"""
    return all(same_object(m, msg) for _c, m in new) and forall_obj(
        lambda c: len([1 for cc, _m in new if cc is c]) == (1 if Listeners(d, msg, c) else 0))


CONTRACTS = [
    dict(key='Conn.send_reply', file=None, func=None, signature='self, data', serves=[], trusted=True, requires=[],
         ghost_modifies=['sent'],
         ensures={'logged': 'sent == old(sent) + [(self, data)]',
                  # GOT(log, c): connection c was sent something in this log (defining equation of the view, per append)
                  'view': 'GotView(sent, old(sent), self)'}, raises='never'),
    dict(key='Dispatcher.subscribe', file='frappy/protocol/dispatcher.py', func='Dispatcher.subscribe', serves=['C08'],
         self_type='Dispatcher', params={'conn': 'Conn', 'eventname': 'str'}, requires=['inv(self)'], modifies=['_subscriptions'],
         ensures={'inv': 'inv(self)',
                  'added': 'Subscribed(self, eventname, conn)',
                  'other_conns': 'dict_same_except(self._subscriptions[eventname], old(InnerOf(self._subscriptions, eventname)), conn)',
                  'other_events': 'OtherEventsUntouched(self._subscriptions, old(self._subscriptions), eventname)'},
         raises='never'),
    dict(key='Dispatcher.broadcast_event', file='frappy/protocol/dispatcher.py', func='Dispatcher.broadcast_event', serves=['C08'],
         self_type='Dispatcher', params={'msg': 'tuple', 'reallyall': 'bool'},
         requires=['inv(self)', 'len(msg) == 3 and is_str(msg[1])', 'reallyall is False'],
         modifies=[], ghost_modifies=['sent'],
         ensures={'table_untouched': "unchanged('_subscriptions') and unchanged('_active_connections')",
                  'exactly_the_listeners': 'DeliveredToListeners(self, msg, old(sent), sent)'},
         bounded_ensures={'table_same': 'self._subscriptions == old(self._subscriptions) and self._active_connections == old(self._active_connections)',
                          'delivered': 'DeliveredTo(self, msg, sent[len(old(sent)):])'},
         raises='never'),
    dict(key='Dispatcher.unsubscribe', file='frappy/protocol/dispatcher.py', func='Dispatcher.unsubscribe', serves=['C08'],
         self_type='Dispatcher', params={'conn': 'Conn', 'eventname': 'str'}, requires=['inv(self)'], modifies=['_subscriptions'],
         ensures={'inv': 'inv(self)',
                  'removed': 'UnsubscribedFrom(self._subscriptions, old(self._subscriptions), eventname, conn)',
                  'others': 'UnaffectedUntouched(self._subscriptions, old(self._subscriptions), eventname)'},
         raises='never'),
    dict(key='Dispatcher.reset_connection', file='frappy/protocol/dispatcher.py', func='Dispatcher.reset_connection', serves=['C08'],
         self_type='Dispatcher', params={'conn': 'Conn'}, requires=['inv(self)'], modifies=['_subscriptions', '_active_connections'],
         ensures={'inv': 'inv(self)',      # first: re-establishes the kinds of the havocked fields for the clauses below
                  'removed': 'RemovedEverywhere(self._subscriptions, old(self._subscriptions), conn)',
                  'inactive': 'conn not in self._active_connections'
                              ' and dict_same_except(self._active_connections, old(self._active_connections), conn)'},
         raises='never'),
    # ---- the three ways a scope ends: *IDN?, disconnect, deactivate (each must leave nothing of that scope for the connection)
    dict(key='Dispatcher.handle__ident', file='frappy/protocol/dispatcher.py', func='Dispatcher.handle__ident', serves=['C08'],
         self_type='Dispatcher', params={'conn': 'Conn'}, requires=['inv(self)'], modifies=['_subscriptions', '_active_connections'],
         ensures={'inv': 'inv(self)',      # first: re-establishes the kinds of the havocked fields for the clauses below
                  'removed': 'RemovedEverywhere(self._subscriptions, old(self._subscriptions), conn)',
                  'inactive': 'conn not in self._active_connections'
                              ' and dict_same_except(self._active_connections, old(self._active_connections), conn)'},
         raises='never'),
    dict(key='Dispatcher.remove_connection', file='frappy/protocol/dispatcher.py', func='Dispatcher.remove_connection', serves=['C08'],
         self_type='Dispatcher', params={'conn': 'Conn'}, requires=['inv(self)'],
         modifies=['_subscriptions', '_active_connections', '_connections'],
         ensures={'inv': 'inv(self)',      # first: re-establishes the kinds of the havocked fields for the clauses below
                  'removed': 'RemovedEverywhere(self._subscriptions, old(self._subscriptions), conn)',
                  'inactive': 'conn not in self._active_connections'
                              ' and dict_same_except(self._active_connections, old(self._active_connections), conn)'},
         raises='never'),
    dict(key='Dispatcher.handle_deactivate', file='frappy/protocol/dispatcher.py', func='Dispatcher.handle_deactivate', serves=['C08'],
         self_type='Dispatcher', params={'conn': 'Conn'}, requires=['inv(self)', 'specifier is None or is_str(specifier)'],
         modifies=['_subscriptions', '_active_connections'],
         ensures={'inv': 'inv(self)',
                  'scope_ended': 'implies(not specifier, conn not in self._active_connections'
                                 ' and dict_same_except(self._active_connections, old(self._active_connections), conn))'
                                 ' and implies(bool(specifier), UnsubscribedFrom(self._subscriptions, old(self._subscriptions), specifier, conn))',
                  'others': "implies(bool(specifier), UnaffectedUntouched(self._subscriptions, old(self._subscriptions), specifier)"
                            " and unchanged('_active_connections'))"},
         raises={'cls': 'issubclass(exc, ProtocolError)', 'data': 'bool(data)',
                 'untouched': "unchanged('_subscriptions') and unchanged('_active_connections')"}),
    # ---- activation of ONE item: only described modules / parameters can be subscribed; a refused request changes nothing
    dict(key='SecNode.get_module', file=None, func=None, signature='self, modulename', serves=[], trusted=True, requires=[],
         ensures={'known': 'same_object(result, module_of(self, modulename)) and result is not None and inv(result)'},
         raises={'cls': 'issubclass(exc, NoSuchModuleError)'}, result_type='Module'),
    dict(key='make_update', file=None, func=None, signature='modulename, pobj', serves=[], trusted=True, requires=['pobj is not None'],
         ensures={'triple': 'is_tuple(result) and len(result) == 3'}, raises='never', result_kind='tuple'),
    dict(key='Dispatcher.handle_activate', file='frappy/protocol/dispatcher.py', func='Dispatcher.handle_activate', serves=['C06', 'C08'],
         self_type='Dispatcher', params={'conn': 'Conn', 'specifier': 'str'},
         requires=['inv(self)', "specifier != ''",
                   # the node's bookkeeping: exported names are modules; the module table is the view module_of
                   'forall_str(lambda n: implies(n in self.secnode.modules, same_object(self.secnode.modules[n], module_of(self.secnode, n))))',
                   'all(n in self.secnode.modules for n in self.secnode.export)'],
         modifies=['_subscriptions'], ghost_modifies=['sent'], check_frame=False,
         ensures={'described': 'DescribedParameterSpec(self, specifier)',
                  'subscribed': 'Subscribed(self, specifier, conn)',
                  'other_events': 'OtherEventsUntouched(self._subscriptions, old(self._subscriptions), specifier)',
                  'global_unchanged': "unchanged('_active_connections')"},
         raises={'cls': 'issubclass(exc, ProtocolError) or issubclass(exc, NoSuchModuleError) or issubclass(exc, NoSuchParameterError)',
                 'nothing_subscribed': "unchanged('_subscriptions') and unchanged('_active_connections')"},
         reach={'activated': 'Subscribed(self, specifier, conn)'}),
    dict(key='Dispatcher.set_all_log_levels', file=None, func=None, signature='self, conn, level', serves=[], trusted=True,
         requires=[], ensures={}, raises='never'),
]
LOOPS = {
    'Dispatcher.handle_activate#0': dict(header='modules', ghost=['sent'], invariant={'inv': 'inv(self)'}),
    'Dispatcher.handle_activate#1': dict(header='moduleobj.accessibles.values()', ghost=['sent'], invariant={'inv': 'inv(self)'}),
    'Dispatcher.broadcast_event#0': dict(header='listeners', ghost=['sent'],
        invariant={'inv': 'inv(self)', 'sofar': 'DeliveredSoFar(done__, old(sent), sent)'}),
    'Dispatcher.unsubscribe#0': dict(header='self._subscriptions.items()', modifies=['_subscriptions'],
        invariant={'inv': 'inv(self)',
                   'done': 'DonePrefix(self._subscriptions, old(self._subscriptions), done__, eventname, conn)',
                   'rest': 'RestPrefix(self._subscriptions, old(self._subscriptions), done__, eventname)'}),
    'Dispatcher.reset_connection#0': dict(header='list(self._subscriptions.items())', modifies=['_subscriptions'],
        invariant={'inv': 'inv(self)',
                   'done': 'DoneAll(self._subscriptions, old(self._subscriptions), done__, conn)',
                   'rest': 'RestAll(self._subscriptions, old(self._subscriptions), done__)'}),
}
register(globals())
