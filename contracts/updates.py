"""Sidecar contracts for the update stream (C05): cache update and notification are one step under the update lock."""
from pyvc.native import *      # noqa: F401,F403

CONTEXT_FILE = 'frappy/modulebase.py'
SOURCES = ['frappy/modulebase.py', 'frappy/errors.py']
# sent: what the module hands to the dispatcher: (module, parameter name, value, readerror, timestamp) at the time of the call
GHOSTS = ['sent']
INLINE = ['secop_error']
ASSUMPTIONS = [
    'A3/A6/A7 as for the other properties',
    'stated domain: float parameters - datatype conversion yields some finite float or any Exception (its own contract is C01)',
    'parameter callbacks (paramCallbacks) neither touch this parameter nor emit messages; updateCallback (the dispatcher) does not raise',
    'the lock discipline is a ghost set of held locks; scheduling of other threads is not modelled - the contract states'
    ' that the notification is issued while the update lock is held, which is what makes cache update + message atomic',
]

CLASSES = {
    'DataType': dict(abstract=True, fields={}),
    'Exception': dict(fields={'report_error': 'any'}, bases=[]),
    'SECoPError': dict(fields={'report_error': 'any'}),
    'Parameter': dict(fields={'datatype': 'DataType', 'value': 'float|none', 'readerror': 'SECoPError|none', 'timestamp': 'float|none',
                              'omit_unchanged_within': 'float', 'export': 'str', 'name': 'str'},
                      inv=['self.timestamp is None or self.timestamp >= 0', 'self.omit_unchanged_within >= 0',
                           'self.readerror is None or is_instance_of(self.readerror, SECoPError)']),
    'Module': dict(fields={'name': 'str', 'parameters': 'dict:Parameter', 'paramCallbacks': 'dict:list:tuple|callable:paramcallback|tuple',
                           'updateLock': 'rlock', 'updateCallback': 'callable:updateCallback', 'log': 'any'},
                   elem_inv={'parameters': 'inv(v) and v.name == k'}),
}


def Emitted(m, pname, sent0, sent1):
    """exactly one message was handed to the dispatcher, carrying the entry the cache holds now"""
    return (len(sent1) == len(sent0) + 1 and is_prefix(sent0, sent1)
            and same_object(nth(last(sent1), 0), m) and nth(last(sent1), 1) == pname
            and same_value(nth(last(sent1), 2), m.parameters[pname].value)
            and same_value(nth(last(sent1), 3), m.parameters[pname].readerror)
            and same_value(nth(last(sent1), 4), m.parameters[pname].timestamp))


def Silent(m, pname, sent0, sent1, readerror0, value0):
    """nothing is emitted: then the cache still says what the last message said (same error state, equal value)"""
    return (len(sent1) == len(sent0) and same_value(m.parameters[pname].readerror, readerror0)
            and (m.parameters[pname].readerror is not None or py_eq(m.parameters[pname].value, value0)))


CONTRACTS = [
    dict(key='iface::DataType.__call__', file=None, func=None, signature='self, value', serves=[], trusted=True, requires=[],
         ensures={'float': 'is_finite_float(result)'}, raises={}),
    dict(key='updateCallback', file=None, func=None, packed_args=True, serves=[], trusted=True,
         requires=["held(nth(args, 0, 'Module').updateLock)"], ghost_modifies=['sent'],
         ensures={'logged': "sent == old(sent) + [(nth(args, 0), nth(args, 1, 'Parameter').name, nth(args, 1, 'Parameter').value,"
                            " nth(args, 1, 'Parameter').readerror, nth(args, 1, 'Parameter').timestamp)]"},
         raises='never'),
    dict(key='paramcallback', file=None, func=None, packed_args=True, serves=[], trusted=True, requires=[], ensures={}, raises={}),
    dict(key='Module.announceUpdate', file='frappy/modulebase.py', func='Module.announceUpdate', serves=['C05'],
         self_type='Module', params={'pname': 'str', 'timestamp': 'float|none', 'validate': 'bool', 'err': 'Exception|none'},
         requires=['inv(self)', 'pname in self.parameters', 'timestamp is None or (is_finite_float(timestamp) and timestamp >= 0)', 'pname in self.paramCallbacks',

                   "self.parameters[pname].export != ''",
                   ],
         # stated domain of the proof only (the bounded stand-in evaluates the contract for the other value kinds as well)
         vc_requires=['value is None or is_finite_float(value)', 'implies(err is None and not validate, is_finite_float(value))'],
         modifies=['value', 'readerror', 'timestamp', 'report_error', 'args'], check_frame=False,
         ensures={'emit_or_silent': 'Emitted(self, pname, old(sent), sent)'
                                    ' or Silent(self, pname, old(sent), sent, old(self.parameters[pname].readerror), old(self.parameters[pname].value))',
                  'recovery': 'implies(old(self.parameters[pname].readerror) is not None and self.parameters[pname].readerror is None,'
                              ' Emitted(self, pname, old(sent), sent))',
                  'stored': 'implies(err is None and not validate, same_value(self.parameters[pname].value, value))',
                  'stamped': 'implies(len(sent) > len(old(sent)) and timestamp is not None and timestamp > 0,'
                             ' same_value(self.parameters[pname].timestamp, timestamp))',
                  'unlocked': 'not held(self.updateLock) or old(held(self.updateLock))'},
         bounded_ensures={'under_lock': 'all(nth(e, 5) for e in sent[len(old(sent)):])'},
         reach={'emitted': 'len(sent) > len(old(sent))', 'silent': 'len(sent) == len(old(sent))'},
         raises='never'),
]
LOOPS = {
    'Module.announceUpdate#0': dict(header='self.paramCallbacks[pname]', invariant={'silent': 'sent == old(sent)'}),
}
register(globals())
