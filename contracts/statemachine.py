"""Sidecar contracts for frappy/lib/statemachine.py (C14)."""
from pyvc.native import *      # noqa: F401,F403

CONTEXT_FILE = 'frappy/lib/statemachine.py'
SOURCES = ['frappy/lib/statemachine.py', 'frappy/errors.py']
# sm_calls: the state functions / cleanup functions / transition hooks invoked, in order:
#   ('state', f, init) ('cleanup', f) ('transition', new)
GHOSTS = ['sm_calls']
INLINE = ['StateMachine._new_state', 'Start.__init__']
ASSUMPTIONS = [
    'A3/A6/A7 as for the other properties',
    'state, cleanup and transition functions are abstract: any result / any Exception (recorded in the ghost log sm_calls);'
    ' they do not themselves assign the attributes statefunc, next_task, cleanup_reason, cleanup of the machine',
    'transition hooks do not raise; attribute names given to start() do not collide with class attributes (else cycle() raises AttributeError)',
    'one thread: start/stop arriving between two steps of a cycle are outside the sequential contract (the bounded'
    ' stand-in issues them from state functions, i.e. between any two state calls)',
    'time.time() never raises',
]

CLASSES = {
    'Start': dict(fields={'newstate': 'any', 'kwds': 'dict'}),
    'Stop': dict(fields={}),
    'Exception': dict(fields={}, bases=[]),
    'StateMachine': dict(fields={'statefunc': 'callable:statefn|none', 'now': 'any', 'init': 'bool', 'next_task': 'any',
                                 'cleanup_reason': 'any', 'cleanup': 'callable:cleanupfn|none', 'transition': 'callable:transitionfn|none',
                                 'maxloops': 'int', '_lock': 'lock', '_last_time': 'any', 'log': 'any'},
                         inv=['TaskOk(self.next_task)', 'ReasonOk(self.cleanup_reason)', 'self.maxloops >= 0']),
}


def TaskOk(t):
    return t is None or is_instance_of(t, Start) or is_instance_of(t, Stop)


def ReasonOk(r):
    return r is None or is_instance_of(r, Start) or is_instance_of(r, Stop) or is_instance_of(r, Exception)


def CleanupCalls(calls0, calls1):
    """number of cleanup function invocations added"""
    return len([e for e in calls1[len(calls0):] if nth(e, 0) == 'cleanup'])


def InitOnlyFirst(new, entered_fresh, boundary):
    """(bounded only) a state function sees init=True exactly when it is the first call after a transition (a state returning
    a callable - also itself - is a transition; Retry is not).  Where the trace cannot tell whether a new run began (a pending
    start / stop was taken, a cleanup ran) the next call must see init=True only if it is a different function."""
    fresh = entered_fresh
    unsure = boundary
    prev = None
    for e in new:
        kind = e[0]
        if kind == 'cleanup':
            unsure = True
            continue
        if kind != 'state':
            continue
        if unsure:
            if prev is not None and e[1] is not prev and not e[2]:
                return False
        elif e[2] != fresh:
            return False
        unsure = False
        prev = e[1]
        fresh = e[3] != 'retry'                    # anything but Retry leaves the state (transition, finish, error)
    return True


def CleanupAtMostOncePerRun(trace):
    """(bounded only) the cleanup function is never called more often than runs were started with it"""
    starts = len([e for e in trace if e[0] == 'started'])
    return len([e for e in trace if e[0] == 'cleanup']) <= starts


def CleaningNow(sm):
    return sm.cleanup_reason is not None


def StartedAs(sm, new, wanted):
    """(bounded only) the most recently requested state was entered (its first call is in this cycle, or the machine has
    already moved on from it), with exactly the requested attributes"""
    state, attrs = wanted
    entered = any(e[0] == 'state' and e[1] is state and e[2] for e in new)
    return entered and all(getattr(sm, k, None) == v for k, v in attrs.items())


CONTRACTS = [
    dict(key='statefn', file=None, func=None, packed_args=True, serves=[], trusted=True, requires=[],
         ghost_modifies=['sm_calls'],
         ensures={'logged': "sm_calls == old(sm_calls) + [('state', callee)]"},
         raises={'logged': "sm_calls == old(sm_calls) + [('state', callee)]"}),
    dict(key='cleanupfn', file=None, func=None, packed_args=True, serves=[], trusted=True, requires=[],
         ghost_modifies=['sm_calls'],
         ensures={'logged': "sm_calls == old(sm_calls) + [('cleanup', callee)]"},
         raises={'logged': "sm_calls == old(sm_calls) + [('cleanup', callee)]"}),
    dict(key='transitionfn', file=None, func=None, packed_args=True, serves=[], trusted=True, requires=[],
         ghost_modifies=['sm_calls'],
         ensures={'logged': "sm_calls == old(sm_calls) + [('transition', callee)]"},
         raises='never'),      # stated domain: transition hooks do not raise (cycle() calls them outside its try block)
    dict(key='StateMachine._update_attributes', file=None, func=None, signature='self, kwds', serves=[], trusted=True,
         requires=[], modifies=['cleanup', 'transition', 'maxloops', 'log', '_lock'],
         ensures={'inv': 'inv(self)'}, raises={'cls': 'issubclass(exc, AttributeError)', 'inv': 'inv(self)'}),
    # ---- the cleanup sequence is taken exactly once; a sequence in progress is never interrupted
    dict(key='StateMachine._cleanup', file='frappy/lib/statemachine.py', func='StateMachine._cleanup', serves=['C14'],
         self_type='StateMachine',
         requires=['inv(self)', 'self.statefunc is not None', 'ReasonOk(reason) and reason is not None',
                   # start / stop never interrupt a cleanup sequence already in progress (call-site obligation in cycle)
                   'implies(is_instance_of(reason, Start) or is_instance_of(reason, Stop), self.cleanup_reason is None)'],
         modifies=['cleanup', 'cleanup_reason'], ghost_modifies=['sm_calls'],
         ensures={'inv': 'inv(self)',
                  'taken': 'self.cleanup is None',
                  'once': 'len(sm_calls) <= len(old(sm_calls)) + 1',
                  'only_if_pending': 'implies(old(self.cleanup) is None, sm_calls == old(sm_calls))',
                  'reason_kept': 'self.cleanup_reason is not None and implies(old(self.cleanup_reason) is not None,'
                                 ' self.cleanup_reason is old(self.cleanup_reason))',
                  'reason_set': 'implies(old(self.cleanup_reason) is None, self.cleanup_reason is reason)',
                  'result': 'result is None or is_callable(result)'},
         raises='never'),
    dict(key='StateMachine.start', file='frappy/lib/statemachine.py', func='StateMachine.start', serves=['C14'],
         self_type='StateMachine', requires=['inv(self)'], modifies=['next_task'],
         ensures={'posted': 'is_instance_of(self.next_task, Start) and self.next_task.newstate is statefunc',
                  'cleanup_reset': "'cleanup' in self.next_task.kwds", 'inv': 'inv(self)'},
         raises='never'),
    dict(key='StateMachine.stop', file='frappy/lib/statemachine.py', func='StateMachine.stop', serves=['C14'],
         self_type='StateMachine', requires=['inv(self)'], modifies=['next_task'],
         ensures={'posted': 'is_instance_of(self.next_task, Stop)', 'inv': 'inv(self)'}, raises='never'),
    dict(key='StateMachine.cycle', file='frappy/lib/statemachine.py', func='StateMachine.cycle', serves=['C14'],
         self_type='StateMachine', requires=['inv(self)'],
         modifies=['statefunc', 'now', 'init', 'next_task', 'cleanup_reason', 'cleanup', 'transition', 'maxloops', 'log', '_lock', 'args',
                   '_last_time'],
         ghost_modifies=['sm_calls'],
         ensures={'inv': 'inv(self)'},
         # bounded stand-in only: histories of start / stop / cycle over state-function programs (trace clauses)
         bounded_ensures={'bounded_calls': 'len(trace) - len(old(trace)) <= 2 * (self.maxloops + 2)',
                          'init_flag': 'InitOnlyFirst(trace[len(old(trace)):], entered_fresh, pending is not None)',
                          'cleanup_once': 'CleanupAtMostOncePerRun(trace)',
                          'cleanup_not_interrupted': 'implies(cleaning_before and statefunc_before is not None,'
                                                     ' len(trace) > len(old(trace)) and trace[len(old(trace))][0] == "state"'
                                                     ' and trace[len(old(trace))][1] is statefunc_before)',
                          'stop_wins': 'implies(pending == "stop" and not cleaning_before, not self.is_active or CleaningNow(self))',
                          'start_wins': 'implies(pending == "start" and not cleaning_before, CleaningNow(self) or StartedAs(self, trace[len(old(trace)):], wanted))'},
         raises={'cls': 'issubclass(exc, AttributeError)'}),
]
LOOPS = {
    # the two passes of cycle() are checked once each from the invariant instead of being unrolled (path count)
    'StateMachine.cycle#0': dict(header='range(2)', use_invariant=True, ghost=['sm_calls'],
        modifies=['statefunc', 'now', 'init', 'next_task', 'cleanup_reason', 'cleanup', 'transition', 'maxloops', 'log', '_lock',
                  '_last_time', 'args'],
        invariant={'inv': 'inv(self)'}),
    'StateMachine.cycle#1': dict(header='range(self.maxloops)', ghost=['sm_calls'],
        modifies=['statefunc', 'now', 'init', 'cleanup_reason', 'cleanup', '_last_time', 'args'],
        invariant={'inv': 'inv(self)', 'active': 'self.statefunc is not None'}),
}
register(globals())
