"""Sidecar contracts for class / instance isolation (C09): clones never share datatype objects."""
from pyvc.native import *      # noqa: F401,F403

CONTEXT_FILE = 'frappy/params.py'
SOURCES = ['frappy/params.py', 'frappy/errors.py']
GHOSTS = []
ASSUMPTIONS = [
    'A3/A6/A7 as for the other properties',
    'the property machinery is abstracted: argument / result / datatype / export of an accessible are plain fields; init(kwds)'
    ' assigns the given values to them (HasProperties.setProperty), the constructor yields a fresh accessible',
    'DataType.copy() returns a newly allocated datatype (proved per datatype class under C03 by the bounded tier)',
]

CLASSES = {
    'DataType': dict(abstract=True, fields={}),
    'Command': dict(fields={'name': 'any', 'func': 'any', 'argument': 'DataType|none', 'result': 'DataType|none', 'export': 'any',
                            'ownProperties': 'dict', 'datatype': 'any'}),
    'Parameter': dict(fields={'name': 'any', 'datatype': 'DataType|none', 'export': 'any', 'ownProperties': 'dict',
                              'propertyValues': 'dict'}),
}


def GivenOrKept(new, old_, kwds, key):
    return same_object(new, kwds[key]) if key in kwds else same_object(new, old_)


def DatatypeObjects(acc):
    """(bounded only) the datatype objects an accessible holds, nested members included"""
    out = []

    def walk(dt):
        if dt is None:
            return
        out.append(dt)
        for m in getattr(dt, 'members', ()) if not isinstance(getattr(dt, 'members', None), dict) else dt.members.values():
            walk(m)
        for attr in ('argument', 'result'):
            walk(getattr(dt, attr, None))
    for attr in ('datatype', 'argument', 'result'):
        try:
            walk(getattr(acc, attr, None))
        except Exception:
            pass
    return out


def SharesNothing(m, others):
    """(bounded only) no datatype object of the new module is an object of its class, a base / sibling class or another instance"""
    mine = {id(d) for a in m.accessibles.values() for d in DatatypeObjects(a)}
    return all(id(d) not in mine for accs in others for a in accs for d in DatatypeObjects(a))


def Without(d, names):
    return {k: v for k, v in d.items() if k not in names}


def Only(d, names):
    return {k: v for k, v in d.items() if k in names}


def DescriptionsKept(before, after):
    return before == after


CONTRACTS = [
    # bounded stand-in only: creating a module instance of a generated class hierarchy
    # bounded stand-in only: defining a class (each definition is one call of __init_subclass__) never changes what the classes
    # defined before describe, and the new class describes what its own chain says
    dict(key='HasAccessibles.__init_subclass__', vc=False, file='frappy/modulebase.py', func='HasAccessibles.__init_subclass__',
         serves=['C09'], requires=[],
         ensures={'earlier_classes_unchanged': 'Without(CLASS_DESCRIPTIONS(), mixin_users) == Without(descriptions_before, mixin_users)',
                  # classes sharing a partial Parameter of a plain mixin: known finding C09-mixin-partial-parameter-shared
                  'mixin_users_unchanged': 'Only(CLASS_DESCRIPTIONS(), mixin_users) == Only(descriptions_before, mixin_users)',
                  'own_chain': 'all(NEW_CLASS().accessibles[a].datatype.export_datatype() == d for a, d in expected_datainfo.items())'},
         raises='never'),
    dict(key='Module.__init__', vc=False, file='frappy/modulebase.py', func='Module.__init__', serves=['C09'], self_type='Module',
         requires=[], ensures={'own_properties': 'all(getattr(self, k) == v for k, v in expected_props.items())',
                               'shares_nothing': 'SharesNothing(self, other_accessibles)',
                               'others_unchanged': 'DescriptionsKept(descriptions_before, DESCRIBE())'},
         raises='never'),
    dict(key='iface::DataType.copy', file=None, func=None, signature='self', serves=[], trusted=True, requires=[],
         ensures={}, raises='never', result_fresh=True),
    dict(key='new::Command', file=None, func=None, packed_args=True, serves=[], trusted=True, requires=[],
         ensures={'defaults': 'result.argument is None and result.result is None and is_dict(result.ownProperties)'},
         raises='never', result_type='Command', result_fresh=True),
    dict(key='Command.init', file=None, func=None, signature='self, kwds', serves=[], trusted=True, requires=[],
         modifies=['self.argument', 'self.result', 'self.export'],
         ensures={'argument': "GivenOrKept(self.argument, old(self.argument), kwds, 'argument')",
                  'result': "GivenOrKept(self.result, old(self.result), kwds, 'result')",
                  'kinds': 'inv(self)'},
         raises={}),
    dict(key='Command.fixExport', file=None, func=None, signature='self', serves=[], trusted=True, requires=[],
         modifies=['self.export'], ensures={'inv': 'inv(self)'}, raises={}),
    dict(key='Command.finish', file=None, func=None, signature='self, modobj=None', serves=[], trusted=True, requires=[],
         modifies=['self.datatype'], ensures={'inv': 'inv(self)'}, raises={}),
    dict(key='Command.clone', file='frappy/params.py', func='Command.clone', serves=['C09'], self_type='Command',
         params={'properties': 'dict'}, requires=['inv(self)'], modifies=['export'], check_frame=False,
         ensures={'fresh': 'is_fresh(result) and not same_object(result, self)',
                  'own_argument': 'result.argument is None or is_fresh(result.argument)',
                  'own_result': 'result.result is None or is_fresh(result.result)',
                  'source_kept': 'same_object(self.argument, old(self.argument)) and same_object(self.result, old(self.result))'},
         reach={'copied_argument': 'result.argument is not None', 'copied_result': 'result.result is not None'},
         raises={}),
    dict(key='new::Parameter', file=None, func=None, packed_args=True, serves=[], trusted=True, requires=[],
         ensures={'defaults': 'result.datatype is None and is_dict(result.ownProperties) and is_dict(result.propertyValues)'},
         raises='never', result_type='Parameter', result_fresh=True),
    dict(key='Parameter.init', file=None, func=None, signature='self, kwds', serves=[], trusted=True, requires=[],
         modifies=['self.datatype', 'self.export', 'self.propertyValues'],
         ensures={'datatype': "GivenOrKept(self.datatype, old(self.datatype), kwds, 'datatype')", 'kinds': 'inv(self)'},
         raises={}),
    dict(key='Parameter.finish', file=None, func=None, signature='self, modobj=None', serves=[], trusted=True, requires=[],
         modifies=['self.export', 'self.propertyValues'], ensures={'inv': 'inv(self)'}, raises={}),
    dict(key='Parameter.clone', file='frappy/params.py', func='Parameter.clone', serves=['C09'], self_type='Parameter',
         params={'properties': 'dict'},
         requires=['inv(self)', "('datatype' in self.propertyValues) == (self.datatype is not None)",
                   "implies('datatype' in properties, properties['datatype'] is None or is_instance_of(properties['datatype'], DataType))"],
         modifies=[], check_frame=False,
         ensures={'fresh': 'is_fresh(result) and not same_object(result, self)',
                  'own_datatype': 'implies(self.datatype is not None, result.datatype is None or is_fresh(result.datatype))',
                  'source_kept': 'same_object(self.datatype, old(self.datatype))'},
         reach={'copied': 'result.datatype is not None and self.datatype is not None'},
         raises={}),
]
LOOPS = {}
register(globals())
