"""Sidecar contracts for persistent parameters (C17): crash-atomic save."""
from pyvc.native import *      # noqa: F401,F403

CONTEXT_FILE = 'frappy/persistent.py'
SOURCES = ['frappy/persistent.py', 'frappy/params.py', 'frappy/errors.py']
# fs_ops: the file-system operations performed, in order: ('open', path) ('dump', path, data) ('write', path)
#         ('rename', src, dst) ('remove', path) ('mkdir', path).  Every abstract operation may fail with OSError
#         *instead of* being performed (a crash point is the same observation: the log stops there).
GHOSTS = ['fs_ops']


def Valid(dt, v):
    return dt.validate(v) == v
INLINE = []
ASSUMPTIONS = [
    'A3/A6/A7 as for the other properties',
    'the file system is abstracted by the ghost log fs_ops; open / json.dump / write / os.rename / os.remove / mkdir either'
    ' append their entry or raise OSError without effect; os.rename is atomic (POSIX)',
    'Parameter.export_value is abstract (its result is some wire value); pathlib operations are abstract and non-raising',
]

CLASSES = {
    'Path': dict(fields={'parent': 'Path', 'name': 'str'}),
    'File': dict(fields={'path': 'Path'}, context_manager='self'),
    'DataType': dict(abstract=True, fields={}),
    'Parameter': dict(fields={'value': 'any', 'datatype': 'DataType'}),
    'PersistentParam': dict(fields={'value': 'any', 'datatype': 'DataType', 'persistent': 'any'}),
    'PersistentMixin': dict(fields={'parameters': 'dict:PersistentParam', 'persistentData': 'any', 'persistentFile': 'Path',
                                    'writeDict': 'dict'},
                            inv=['inv(self.persistentFile)', 'inv(self.persistentFile.parent)']),
}


def Tmp(m):
    return DIV(m.persistentFile.parent, m.persistentFile.name + '.tmp')


def OnlyTmpTouched(m, ops0, ops1):
    """every operation of this call works on the temporary file (or creates the directory); the persistent file itself is only
    ever replaced by the atomic rename of the temporary file"""
    return is_prefix(ops0, ops1) and all(
        (nth(e, 0) == 'rename' and nth(e, 1) == Tmp(m) and nth(e, 2) == m.persistentFile)
        or (nth(e, 0) == 'mkdir')
        or (nth(e, 0) != 'rename' and nth(e, 0) != 'mkdir' and nth(e, 1) == Tmp(m))
        for e in ops1[len(ops0):])


def Renamed(m, ops0, ops1):
    return any(nth(e, 0) == 'rename' for e in ops1[len(ops0):])


def CompleteBeforeRename(m, ops0, ops1):
    """what is renamed over the persistent file is a completely written snapshot: dump and final write precede the rename"""
    new = ops1[len(ops0):]
    return implies(Renamed(m, ops0, ops1),
                   len(new) >= 4 and nth(new[len(new) - 1], 0) != 'open'
                   and any(nth(e, 0) == 'dump' and same_value(nth(e, 2), m.persistentData) for e in new))


def Wanted(m):
    return {k: v.export_value() for k, v in m.parameters.items() if getattr(v, 'persistent', False)}


def DiskContent(m):
    """(bounded only) parsed content of the persistent file, None when absent, 'CORRUPT' when not a complete JSON text"""
    import json
    try:
        with open(m.persistentFile, encoding='utf-8') as f:
            text = f.read()
    except FileNotFoundError:
        return None
    try:
        return json.loads(text)
    except ValueError:
        return 'CORRUPT'


def DiskIsSnapshot(m, before):
    """(bounded only) the file on disk is a complete snapshot: the previous one or the new one"""
    now = DiskContent(m)
    return now == before or now == Wanted(m)


def SavedOrPending(m):
    """(bounded only) what the module believes to be on disk really is there - otherwise the next save would be skipped"""
    return m.persistentData is None or m.persistentData != Wanted(m) or DiskContent(m) == Wanted(m)


CONTRACTS = [
    dict(key='iface::DataType.export_value', file=None, func=None, signature='self, value', serves=[], trusted=True,
         requires=[], ensures={}, raises='never'),
    dict(key='PersistentParam.export_value', file=None, func=None, signature='self', serves=[], trusted=True,
         requires=[], ensures={}, raises='never'),
    dict(key='Path.__truediv__', file=None, func=None, signature='self, other', serves=[], trusted=True, requires=[],
         ensures={'path': 'same_object(result, DIV(self, other))'}, raises='never', result_type='Path'),
    dict(key='Path.is_dir', file=None, func=None, signature='self', serves=[], trusted=True, requires=[],
         ensures={'bool': 'is_bool(result)'}, raises='never'),
    dict(key='Path.mkdir', file=None, func=None, signature='self, parents=False, exist_ok=False', serves=[], trusted=True,
         requires=[], ghost_modifies=['fs_ops'], ensures={'logged': "fs_ops == old(fs_ops) + [('mkdir', self)]"},
         raises={'cls': 'issubclass(exc, OSError)', 'noeffect': 'fs_ops == old(fs_ops)'}),
    dict(key='open', file=None, func=None, signature='path, mode, encoding=None', serves=[], trusted=True, requires=[],
         ghost_modifies=['fs_ops'], result_type='File',
         ensures={'logged': "fs_ops == old(fs_ops) + [('open', path)]", 'file': 'same_object(result.path, path)'},
         raises={'cls': 'issubclass(exc, OSError)', 'noeffect': 'fs_ops == old(fs_ops)'}),
    dict(key='json.dump', file=None, func=None, signature='data, f, indent=None', serves=[], trusted=True, requires=[],
         ghost_modifies=['fs_ops'],
         ensures={'logged': "fs_ops == old(fs_ops) + [('dump', f.path, data)]"},
         raises={'cls': 'issubclass(exc, OSError) or issubclass(exc, TypeError) or issubclass(exc, ValueError)',
                 'noeffect': 'fs_ops == old(fs_ops)'}),
    dict(key='File.write', file=None, func=None, signature='self, text', serves=[], trusted=True, requires=[],
         ghost_modifies=['fs_ops'],
         ensures={'logged': "fs_ops == old(fs_ops) + [('write', self.path)]"},
         raises={'cls': 'issubclass(exc, OSError)', 'noeffect': 'fs_ops == old(fs_ops)'}),
    dict(key='os.rename', file=None, func=None, signature='src, dst', serves=[], trusted=True, requires=[],
         ghost_modifies=['fs_ops'],
         ensures={'logged': "fs_ops == old(fs_ops) + [('rename', src, dst)]"},
         raises={'cls': 'issubclass(exc, OSError)', 'noeffect': 'fs_ops == old(fs_ops)'}),
    dict(key='os.remove', file=None, func=None, signature='p', serves=[], trusted=True, requires=[],
         ghost_modifies=['fs_ops'],
         ensures={'logged': "fs_ops == old(fs_ops) + [('remove', p)]"},
         raises={'cls': 'issubclass(exc, OSError)', 'noeffect': 'fs_ops == old(fs_ops)'}),
    dict(key='PersistentMixin.__save_params', file='frappy/persistent.py', func='PersistentMixin.__save_params', serves=['C17'],
         self_type='PersistentMixin', requires=['inv(self)'], modifies=['persistentData'], ghost_modifies=['fs_ops'],
         reach={'saved': 'Renamed(self, old(fs_ops), fs_ops)', 'unchanged_data': 'fs_ops == old(fs_ops)',
                'raises_failed_save': 'len(fs_ops) > len(old(fs_ops))'},
         ensures={'only_tmp': 'OnlyTmpTouched(self, old(fs_ops), fs_ops)',
                  'complete': 'CompleteBeforeRename(self, old(fs_ops), fs_ops)',
                  'remembered_iff_on_disk': 'Renamed(self, old(fs_ops), fs_ops) or same_value(self.persistentData, old(self.persistentData))'},
         # bounded stand-in only: the real file system under fault injection / simulated crash at every operation
         bounded_ensures={'disk': 'DiskIsSnapshot(self, disk_before)', 'retried': 'SavedOrPending(self)'},
         bounded_raises={'disk': 'DiskIsSnapshot(self, disk_before)', 'retried': 'SavedOrPending(self)'},
         raises={'cls': 'issubclass(exc, OSError) or issubclass(exc, TypeError) or issubclass(exc, ValueError)',
                 'only_tmp': 'OnlyTmpTouched(self, old(fs_ops), fs_ops)',
                 'complete': 'CompleteBeforeRename(self, old(fs_ops), fs_ops)',
                 'not_remembered': 'Renamed(self, old(fs_ops), fs_ops) or same_value(self.persistentData, old(self.persistentData))'}),
    # start-up precedence (bounded stand-in only): configuration > stored file > default, for parameters with and without write methods
    dict(key='PersistentMixin.__init__', vc=False, file='frappy/persistent.py', func='PersistentMixin.__init__', serves=['C17'],
         self_type='PersistentMixin', requires=[],
         ensures={'precedence': 'all(getattr(self, p) == v for p, v in expected.items())',
                  'to_hardware': 'all((p in self.writeDict) == w for p, w in expect_write.items())',
                  'snapshot_current': 'DiskContent(self) == Wanted(self)'},
         raises='never'),
    dict(key='PersistentMixin.loadPersistentData', vc=False, file='frappy/persistent.py', func='PersistentMixin.loadPersistentData',
         serves=['C17'], self_type='PersistentMixin', requires=[],
         ensures={'dict': 'is_dict(result)',
                  'valid': 'all(k in self.parameters and Valid(self.parameters[k].datatype, v) for k, v in result.items())',
                  'remembers_dict': 'is_dict(self.persistentData)'},
         raises='never'),
    # load after save (bounded stand-in only): what a module saved is what a new module instance restores, for every datatype
    dict(key='PersistentMixin.loadPersistentData[roundtrip]', vc=False, file='frappy/persistent.py', func='PersistentMixin.loadPersistentData',
         serves=['C17'], self_type='PersistentMixin', requires=[],
         ensures={'restored_equal': 'all(p in result and result[p] == v and type(result[p]) is type(v) for p, v in saved_values.items())',
                  'nothing_else': 'set(result) <= set(saved_values)'},
         raises='never'),
]
LOOPS = {}
UFS = {'DIV': (['val', 'val'], 'val', 'Path')}
register(globals())
