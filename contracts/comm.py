"""Sidecar contracts for the communicator's line / block assembly (C16)."""
from pyvc.native import *      # noqa: F401,F403

CONTEXT_FILE = 'frappy/lib/asynconn.py'
SOURCES = ['frappy/lib/asynconn.py', 'frappy/errors.py']
GHOSTS = ['rx']
UFS = {'JOIN': (['val'], 'val', 'bytes')}
ASSUMPTIONS = [
    'A3/A6/A7 as for the other properties',
    'JOIN(rx) is the concatenation of the chunks received so far: an uninterpreted function whose defining equation'
    ' JOIN(log + [chunk]) == JOIN(log) + chunk is stated by the contract of recv(); recv() returns bytes (b\'\' on timeout) or raises',
    'the ghost parameter P (bytes consumed before the call) makes the conservation law P + buffer == everything received expressible',
    'request/reply pairing under the communicate lock and reconnection (StringIO / BytesIO.communicate, check_connection) are only'
    ' covered by the repository tests and the two fix: commits of round 1',
]
CLASSES = {
    'AsynConn': dict(fields={'_rxbuffer': 'bytes', 'end_of_line': 'bytes', 'timeout': 'any'}, virtual=['recv'],
                     inv=['len(self.end_of_line) >= 1']),
}


def Received(rx0, rx1):
    return b''.join(rx1[len(rx0):])


def LineTaken(conn, buf0, rx0, rx1, result):
    """the reply is the first complete line of (buffer + everything received during the call), the rest stays buffered;
    without a complete line nothing is lost"""
    total = buf0 + Received(rx0, rx1)
    eol = conn.end_of_line
    if result is None:
        return eol not in total and conn._rxbuffer == total
    return total == result + eol + conn._rxbuffer and eol not in result


# ---- reconnection (bounded stand-in only): histories of communicate() calls on a device that refuses, drops and comes back
def ReconnectRateOk(attempts, interval):
    """connection attempts made on behalf of communicate() are at least one reconnect interval apart"""
    return all(b - a >= interval - 1e-9 for a, b in zip(attempts, attempts[1:]))


def CallbacksPerReconnect(cb_calls, n_reconnects, n_callbacks):
    """every registered reconnect callback ran exactly once for each successful RE-connect (a connect after a connection was lost)"""
    return len(cb_calls) == n_reconnects * n_callbacks and all(cb_calls.count(i) == n_reconnects for i in range(n_callbacks))


def StateVisible(io):
    return bool(io.is_connected) == (io._conn is not None)


CONTRACTS = [
    dict(key='iface::AsynConn.recv', file=None, func=None, signature='self', serves=[], trusted=True, requires=[],
         ghost_modifies=['rx'],
         ensures={'bytes': 'is_bytes(result)', 'logged': 'rx == old(rx) + [result]', 'joined': 'JOIN(rx) == JOIN(old(rx)) + result'},
         raises={'cls': 'issubclass(exc, ConnectionError) or issubclass(exc, OSError)', 'nothing': 'rx == old(rx)'}),
    # conservation: with P the bytes consumed before the call, P + buffer == JOIN(rx) before, and after the call
    # P + line + eol + buffer == JOIN(rx) (a line was taken) or P + buffer == JOIN(rx) (nothing taken, nothing lost)
    dict(key='AsynConn.readline[vc]', file='frappy/lib/asynconn.py', func='AsynConn.readline', serves=['C16'], self_type='AsynConn',
         ghost_params={'P': 'bytes'},
         requires=['inv(self)', 'timeout is None or is_finite_float(timeout)', 'JOIN(rx) == P + self._rxbuffer'],
         modifies=['_rxbuffer'], ghost_modifies=['rx'],
         ensures={'line': 'implies(result is not None, is_bytes(result) and JOIN(rx) == P + result + self.end_of_line + self._rxbuffer'
                          ' and self.end_of_line not in result)',
                  'none': 'implies(result is None, JOIN(rx) == P + self._rxbuffer and self.end_of_line not in self._rxbuffer)',
                  'inv': 'inv(self)'},
         reach={'line': 'result is not None', 'none': 'result is None'},
         raises={'cls': 'issubclass(exc, TimeoutError) or issubclass(exc, ConnectionError) or issubclass(exc, OSError)',
                 'nothing_lost': 'JOIN(rx) == P + self._rxbuffer', 'inv': 'inv(self)'}),
    dict(key='AsynConn.readbytes[vc]', file='frappy/lib/asynconn.py', func='AsynConn.readbytes', serves=['C16'], self_type='AsynConn',
         ghost_params={'P': 'bytes'}, params={'nbytes': 'int'},
         requires=['inv(self)', 'timeout is None or is_finite_float(timeout)', 'nbytes >= 0', 'JOIN(rx) == P + self._rxbuffer'],
         modifies=['_rxbuffer'], ghost_modifies=['rx'],
         ensures={'block': 'implies(result is not None, is_bytes(result) and len(result) == nbytes and JOIN(rx) == P + result + self._rxbuffer)',
                  'none': 'implies(result is None, JOIN(rx) == P + self._rxbuffer and len(self._rxbuffer) < nbytes)',
                  'inv': 'inv(self)'},
         raises={'cls': 'issubclass(exc, TimeoutError) or issubclass(exc, ConnectionError) or issubclass(exc, OSError)',
                 'nothing_lost': 'JOIN(rx) == P + self._rxbuffer', 'inv': 'inv(self)'}),
    # request / reply pairing of the line communicator (bounded stand-in only; virtual time, scripted device): the reply returned
    # belongs to the command just sent - data that arrived before the command was sent is never returned as its reply
    dict(key='StringIO.communicate', vc=False, file='frappy/io.py', func='StringIO.communicate', serves=['C16'], self_type='StringIO',
         requires=[],
         ensures={'own_reply': 'result == expected_reply', 'waited': 'first_send_time.conn.sent[0][0] >= call_time + self.wait_before - 1e-9'},
         raises={'only_if_expected': 'expected_reply is None'}),
    dict(key='IOBase.check_connection', vc=False, file='frappy/io.py', func='IOBase.check_connection', serves=['C16'], self_type='IOBase',
         requires=[],
         ensures={'rate': 'ReconnectRateOk(world.attempts, self.pollinterval)',
                  'callbacks': 'CallbacksPerReconnect(world.cb_calls, world.reconnects, 2)',
                  'state_visible': 'StateVisible(self)',
                  'reply': 'result == expected_reply'},
         raises={'rate': 'ReconnectRateOk(world.attempts, self.pollinterval)',
                 'callbacks': 'CallbacksPerReconnect(world.cb_calls, world.reconnects, 2)',
                 'state_visible': 'StateVisible(self)',
                 'error_expected': 'expected_reply is None',
                 'cls': 'issubclass(exc, CommunicationFailedError) or exc.__name__ in ("SilentError", "CommunicationSilentError")'}),
    dict(key='AsynConn.readline', vc=False, file='frappy/lib/asynconn.py', func='AsynConn.readline', serves=['C16'],
         self_type='AsynConn', requires=[],
         ensures={'line': 'LineTaken(self, old(self._rxbuffer), old(rx), rx, result)'},
         raises={'timeout': "issubclass(exc, TimeoutError) and self.end_of_line not in old(self._rxbuffer) + Received(old(rx), rx)"
                            " and self._rxbuffer == old(self._rxbuffer) + Received(old(rx), rx)"}),
    dict(key='AsynConn.readbytes', vc=False, file='frappy/lib/asynconn.py', func='AsynConn.readbytes', serves=['C16'],
         self_type='AsynConn', requires=[],
         ensures={'bytes': 'implies(result is not None, len(result) == nbytes and old(self._rxbuffer) + Received(old(rx), rx) == result + self._rxbuffer)',
                  'none': 'implies(result is None, self._rxbuffer == old(self._rxbuffer) + Received(old(rx), rx) and len(self._rxbuffer) < nbytes)'},
         raises={'timeout': 'issubclass(exc, TimeoutError) and self._rxbuffer == old(self._rxbuffer) + Received(old(rx), rx)'}),
]
LOOPS = {
    'AsynConn.readline#0': dict(header='True', ghost=['rx'], modifies=['_rxbuffer'],
        invariant={'inv': 'inv(self)', 'conserved': 'JOIN(rx) == P + self._rxbuffer'}),
    'AsynConn.readbytes#0': dict(header='len(self._rxbuffer) < nbytes', ghost=['rx'], modifies=['_rxbuffer'],
        invariant={'inv': 'inv(self)', 'conserved': 'JOIN(rx) == P + self._rxbuffer'}),
}
register(globals())
