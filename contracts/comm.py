"""Sidecar contracts for the communicator's line assembly (C16) - bounded stand-in only."""
from pyvc.native import *      # noqa: F401,F403

CONTEXT_FILE = 'frappy/lib/asynconn.py'
SOURCES = ['frappy/lib/asynconn.py', 'frappy/errors.py']
GHOSTS = ['rx']
ASSUMPTIONS = [
    'no deductive contract in this round: the receive loop needs the concatenation of a log of received chunks as a ghost value'
    ' (an inductive definition over the log) - planned, not built; the contract below is evaluated natively',
    'request/reply pairing under the communicate lock and reconnection (StringIO / BytesIO.communicate, check_connection) are only'
    ' covered by the repository tests and the two fix: commits of round 1',
]
CLASSES = {}


def Received(rx0, rx1):
    return b''.join(rx1[len(rx0):])


def LineTaken(conn, buf0, rx0, rx1, result):
    """the reply is the first complete line of (buffer + everything received during the call), the rest stays buffered;
    without a complete line nothing is lost"""
    total = buf0 + Received(rx0, rx1)
    eol = conn.end_of_line
    if result is None:
        return eol not in total and conn._rxbuffer == total
    return total == result + eol + conn._rxbuffer and eol not in result


CONTRACTS = [
    dict(key='AsynConn.readline', vc=False, file='frappy/lib/asynconn.py', func='AsynConn.readline', serves=['C16'],
         self_type='AsynConn', requires=[],
         ensures={'line': 'LineTaken(self, old(self._rxbuffer), old(rx), rx, result)'},
         raises={'timeout': "issubclass(exc, TimeoutError) and self.end_of_line not in old(self._rxbuffer) + Received(old(rx), rx)"
                            " and self._rxbuffer == old(self._rxbuffer) + Received(old(rx), rx)"}),
    dict(key='AsynConn.readbytes', vc=False, file='frappy/lib/asynconn.py', func='AsynConn.readbytes', serves=['C16'],
         self_type='AsynConn', requires=[],
         ensures={'bytes': 'implies(result is not None, len(result) == nbytes and old(self._rxbuffer) + Received(old(rx), rx) == result + self._rxbuffer)',
                  'none': 'implies(result is None, self._rxbuffer == old(self._rxbuffer) + Received(old(rx), rx) and len(self._rxbuffer) < nbytes)'},
         raises={'timeout': 'issubclass(exc, TimeoutError) and self._rxbuffer == old(self._rxbuffer) + Received(old(rx), rx)'}),
]
LOOPS = {}
register(globals())
