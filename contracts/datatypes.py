"""Sidecar contracts for frappy/datatypes.py (C01, C02, C03) - plain data + spec functions.

One text, two uses: the VC generator parses this file (spec functions are
executed symbolically), replay and the bounded tier import it under CPython.
"""
from pyvc.native import *      # noqa: F401,F403  (contract-language builtins, native meaning)

CONTEXT_FILE = 'frappy/datatypes.py'
SOURCES = ['frappy/datatypes.py', 'frappy/properties.py', 'frappy/lib/enum.py']
DISPATCHED = ['InSet', 'Den', 'Conv', 'DenWire', 'DenConv', 'JsonKind', 'Exported', 'ConvW', 'Accepts']
DISPATCH_FALLBACK = {'DenWire': 'DenConv', 'Conv': 'InSet', 'DenConv': 'Den', 'ConvW': 'Conv'}
INLINE = []

ASSUMPTIONS = [
    'A1 float arithmetic is real arithmetic (no rounding); overflow to +-inf, NaN propagation and unordered NaN are modelled;'
    ' the int->float conversion of `int + float` / `int - float` / float(int) rounds beyond 2**53 (some whole number within relative error 2**-53)',
    'FloatRange.validate is verified for relative_resolution <= 1 (stated domain)',
    'A2 generalConfig.lazy_number_validation is False (its default)',
    'A3 logging never raises',
    'A4 dictionaries have string keys',
    'A6 no BaseException other than Exception subclasses',
    'A7 termination is not proved',
    'a Property attribute read (self.min ...) is the value stored by setProperty->validate of the declared Property datatype'
    ' (class invariants are read from the Property declarations)',
    'the receiver has exactly the class under verification (subclasses overriding a method need their own obligations)',
]

FMAX = 1.7976931348623157e+308

# ---------------------------------------------------------------------------
# class schemas: fields (Property values / attributes) and their kinds
# ---------------------------------------------------------------------------
CLASSES = {
    'DataType': dict(abstract=True, fields={}),
    'FloatRange': dict(fields={'min': 'float', 'max': 'float', 'absolute_resolution': 'float',
                               'relative_resolution': 'float', 'fmtstr': 'str', 'unit': 'str'}),
    'IntRange': dict(fields={'min': 'int', 'max': 'int'}),
    'ScaledInteger': dict(fields={'scale': 'float', 'min': 'float', 'max': 'float', 'absolute_resolution': 'float',
                                  'relative_resolution': 'float', 'fmtstr': 'str', 'unit': 'str'},
                          inv=['self.scale > 0']),
    'Enum': dict(fields={'members': 'tuple', 'name': 'str'}),
    'EnumType': dict(fields={'_enum': 'Enum'}, inv=['inv(self._enum)']),
    'BLOBType': dict(fields={'minbytes': 'int', 'maxbytes': 'int'}),
    'StringType': dict(fields={'minchars': 'int', 'maxchars': 'int', 'isUTF8': 'bool'}),
    'TextType': dict(fields={}),
    'ArrayOf': dict(fields={'members': 'DataType', 'minlen': 'int', 'maxlen': 'int'}, inv=['inv(self.members)']),
    'StructOf': dict(fields={'members': 'dict:DataType', 'optional': 'list:str'}),
    'LimitsType': dict(fields={}),
    'TupleOf': dict(fields={'members': 'tuple:DataType'},
                    inv=['len(self.members) >= 1', 'all(inv(m) for m in self.members)']),
    'BoolType': dict(fields={}),
}

UFS = {}


# ---------------------------------------------------------------------------
# spec functions: the declared value sets (from the datainfo, not from the code)
# ---------------------------------------------------------------------------
def InSet_IntRange(self, v):
    return is_int(v) and self.min <= v <= self.max


def Conv_IntRange(self, v):
    return is_int(v)


def Den_IntRange(self, result, offered):
    # denotes the same number; strings, fractions, inf/nan never do
    return num_eq(result, offered)


def InSet_FloatRange(self, v):
    return is_finite_float(v) and self.min <= v <= self.max


def Conv_FloatRange(self, v):
    return is_finite_float(v) and -FMAX <= v <= FMAX


def prec_FloatRange(self, offered):
    return max(abs(offered * self.relative_resolution), self.absolute_resolution)


def Den_FloatRange(self, result, offered):
    # the same number, or within the documented resolution tolerance of it (clamped to a limit),
    # +-infinity is documented to map to +-float_max
    if is_inf(offered):
        return result == (FMAX if offered > 0 else -FMAX) or result == self.min or result == self.max
    if not is_number(offered) and not is_enum(offered):
        return False
    # an int is converted to the nearest float (exact up to 2**53)
    return result == as_float(offered) or (abs(result - as_float(offered)) <= prec_FloatRange(self, as_float(offered))
                                           and (result == self.min or result == self.max))


def ConvW_BLOBType(self, v):
    # import_value only decodes; the length limits are checked by validate afterwards
    return is_bytes(v)


def ConvW_ArrayOf(self, v):
    return is_tuple(v) and all(ConvW(self.members, x) for x in v)


def ConvW_TupleOf(self, v):
    return (is_tuple(v) and len(v) == len(self.members)
            and all(ConvW(m, x) for m, x in zip(self.members, v)))


def ConvW_StructOf(self, v):
    return is_dict(v) and all(k in self.members for k in v) and all(ConvW(self.members[k], v[k]) for k in v)


def DenConv_FloatRange(self, result, offered):
    if is_inf(offered):
        return result == (FMAX if offered > 0 else -FMAX)
    return (is_number(offered) or is_enum(offered)) and result == as_float(offered)


def grid_ScaledInteger(self, x):
    """nearest grid point (round half even), as the transported integer times scale"""
    return round(x / self.scale) * self.scale


def InSet_ScaledInteger(self, v):
    return (is_finite_float(v) and on_grid(v, self.scale)
            and grid_ScaledInteger(self, self.min) <= v <= grid_ScaledInteger(self, self.max))


def Conv_ScaledInteger(self, v):
    return is_inf(v) or (is_finite_float(v) and on_grid(v, self.scale))


def Den_ScaledInteger(self, result, offered):
    # the nearest grid point, or the limit when outside by less than one scale step (documented clamp)
    if not (is_number(offered) or is_enum(offered)):
        return False
    lo = grid_ScaledInteger(self, self.min)
    hi = grid_ScaledInteger(self, self.max)
    return (abs(result - offered) <= self.scale / 2
            or (result == lo and self.min - self.scale <= offered < lo)
            or (result == hi and hi < offered <= self.max + self.scale))


def DenConv_ScaledInteger(self, result, offered):
    # nearest grid point; at the very edge of the float range the product overflows to infinity
    if not (is_number(offered) or is_enum(offered)):
        return False
    if is_inf(result):
        return abs(as_float(offered)) + self.scale > FMAX
    return abs(result - as_float(offered)) <= self.scale / 2


def DenWire_ScaledInteger(self, result, wire):
    # the wire value must be a whole number (integer kind); the result is wire * scale
    # (infinite when the product leaves the float range; validate rejects that afterwards)
    if not is_whole(wire):
        return False
    if is_inf(result):
        return abs(realnum(wire)) * self.scale > FMAX
    return result == realnum(wire) * self.scale


def InSet_EnumType(self, v):
    e = self._enum
    return (is_enum(v) and enum_owned(e, v) and enum_has_name(e, v.name) and enum_code(e, v.name) == v.value
            and enum_has_code(e, v.value) and enum_name(e, v.value) == v.name)


def Den_EnumType(self, result, offered):
    if is_str(offered):
        return result.name == offered
    if is_enum(offered):
        return result.value == offered.value
    return is_number(offered) and num_eq(result.value, offered)


def EnumFound(self, key):
    """the keys an Enum (a dict of names and codes) finds: member names, and numbers equal to a code"""
    if is_str(key):
        return enum_has_name(self, key)
    if is_enum(key):
        return enum_has_code(self, key.value)
    return is_number(key) and is_whole(key) and enum_has_code(self, int(key))


def EnumLookup(self, key, result):
    if is_str(key):
        return same_object(result, mk_enum(self, key, enum_code(self, key)))
    code = key.value if is_enum(key) else int(key)
    return same_object(result, mk_enum(self, enum_name(self, code), code))


def InSet_BLOBType(self, v):
    return is_bytes(v) and self.minbytes <= len(v) <= self.maxbytes


def Den_BLOBType(self, result, offered):
    return is_bytes(offered) and result == offered


def DenWire_BLOBType(self, result, wire):
    return is_str(wire) and is_valid_b64(wire) and result == b64_bytes(wire)


def InSet_StringType(self, v):
    return (is_str(v) and self.minchars <= len(v) <= self.maxchars and '\0' not in v
            and (self.isUTF8 or is_ascii(v)))


def Den_StringType(self, result, offered):
    return is_str(offered) and result == offered


def InSet_BoolType(self, v):
    return is_bool(v)


def Den_BoolType(self, result, offered):
    return (is_number(offered) or is_enum(offered)) and ((result and num_eq(offered, 1)) or (not result and num_eq(offered, 0)))


def InSet_ArrayOf(self, v):
    return is_tuple(v) and self.minlen <= len(v) <= self.maxlen and all(InSet(self.members, x) for x in v)


def Conv_ArrayOf(self, v):
    return is_tuple(v) and all(Conv(self.members, x) for x in v)


def Den_ArrayOf(self, result, offered):
    # same shape: a genuine sequence of the same length, element-wise the same values
    return (is_seq(offered) and len(result) == len(offered)
            and all(Den(self.members, r, o) for r, o in zip(result, offered)))


def DenConv_ArrayOf(self, result, offered):
    return (is_seq(offered) and len(result) == len(offered)
            and all(DenConv(self.members, r, o) for r, o in zip(result, offered)))


def DenWire_ArrayOf(self, result, wire):
    return (is_list(wire) and len(result) == len(wire)
            and all(DenWire(self.members, r, o) for r, o in zip(result, wire)))


def InSet_TupleOf(self, v):
    return (is_tuple(v) and len(v) == len(self.members)
            and all(InSet(m, x) for m, x in zip(self.members, v)))


def Conv_TupleOf(self, v):
    return (is_tuple(v) and len(v) == len(self.members)
            and all(Conv(m, x) for m, x in zip(self.members, v)))


def Den_TupleOf(self, result, offered):
    return (is_seq(offered) and len(result) == len(offered)
            and all(Den(m, r, o) for m, r, o in zip(self.members, result, offered)))


def DenConv_TupleOf(self, result, offered):
    return (is_seq(offered) and len(result) == len(offered)
            and all(DenConv(m, r, o) for m, r, o in zip(self.members, result, offered)))


def DenWire_TupleOf(self, result, wire):
    return (is_list(wire) and len(result) == len(wire)
            and all(DenWire(m, r, o) for m, r, o in zip(self.members, result, wire)))


def Shape_ArrayOf(self, value):
    return is_seq(value) and self.minlen <= len(value) <= self.maxlen


def Shape_TupleOf(self, value):
    return is_seq(value) and len(value) == len(self.members)


def DenWire_IntRange(self, result, wire):
    return Den_IntRange(self, result, wire)


def DenWire_FloatRange(self, result, wire):
    return DenConv_FloatRange(self, result, wire)


def DenWire_EnumType(self, result, wire):
    return Den_EnumType(self, result, wire)


def DenWire_StringType(self, result, wire):
    return Den_StringType(self, result, wire)


def DenWire_BoolType(self, result, wire):
    return Den_BoolType(self, result, wire)


def InSet_StructOf(self, v):
    return (is_dict(v) and all(k in self.members for k in v)
            and all(k in v for k in self.members if k not in self.optional)
            and all(InSet(self.members[k], v[k]) for k in v))


def Conv_StructOf(self, v):
    return is_dict(v) and all(k in self.members for k in v) and all(Conv(self.members[k], v[k]) for k in v)


def Den_StructOf(self, result, offered):
    # the result agrees with the offer on every offered member (None stands for a missing key);
    # members that were not offered come from the previous value (clause `merge` of StructOf.validate)
    return (is_dict(offered)
            and all(k in result and Den(self.members[k], result[k], offered[k]) for k in offered if offered[k] is not None))


def DenConv_StructOf(self, result, offered):
    return (is_dict(offered)
            and all(k in result and DenConv(self.members[k], result[k], offered[k]) for k in offered if offered[k] is not None)
            and all(k in offered and offered[k] is not None for k in result))


def DenWire_StructOf(self, result, wire):
    return (is_dict(wire) and all(k in result and DenWire(self.members[k], result[k], wire[k]) for k in wire)
            and all(k in wire for k in result))


def Merge_StructOf(self, result, offered, previous):
    prev = previous if previous is not None else {}
    return (all((k in offered and offered[k] is not None) or (k in prev and result[k] == prev[k]) for k in result)
            and all(k in result for k in prev))


def InSet_LimitsType(self, v):
    return InSet_TupleOf(self, v) and v[0] <= v[1]


# ---- C02: exported (wire) forms.  Exported(dt, v, w): w is the transport form of the valid value v
def JsonKind_IntRange(self, w): return is_int(w)
def Exported_IntRange(self, v, w): return is_int(w) and w == v


def JsonKind_FloatRange(self, w): return is_finite_float(w)
def Exported_FloatRange(self, v, w): return is_finite_float(w) and w == v


def JsonKind_ScaledInteger(self, w): return is_int(w)
def Exported_ScaledInteger(self, v, w): return is_int(w) and w * self.scale == v


def JsonKind_EnumType(self, w): return is_int(w)
def Exported_EnumType(self, v, w): return is_int(w) and w == v.value


def JsonKind_BLOBType(self, w): return is_str(w)
def Exported_BLOBType(self, v, w): return is_str(w) and is_valid_b64(w) and b64_bytes(w) == v


def JsonKind_StringType(self, w): return is_str(w)
def Exported_StringType(self, v, w): return is_str(w) and w == v


def JsonKind_BoolType(self, w): return is_bool(w)
def Exported_BoolType(self, v, w): return is_bool(w) and w == v


def JsonKind_ArrayOf(self, w): return is_list(w) and all(JsonKind(self.members, x) for x in w)
def Exported_ArrayOf(self, v, w):
    return is_list(w) and len(w) == len(v) and all(Exported(self.members, x, y) for x, y in zip(v, w))


def JsonKind_TupleOf(self, w):
    return is_list(w) and len(w) == len(self.members) and all(JsonKind(m, x) for m, x in zip(self.members, w))
def Exported_TupleOf(self, v, w):
    return is_list(w) and len(w) == len(v) and all(Exported(m, x, y) for m, x, y in zip(self.members, v, w))


def JsonKind_StructOf(self, w):
    return is_dict(w) and all(is_str(k) and k in self.members and JsonKind(self.members[k], w[k]) for k in w)
def Exported_StructOf(self, v, w):
    return (is_dict(w) and all(k in v for k in w) and all(k in w for k in v)
            and all(Exported(self.members[k], v[k], w[k]) for k in v))


# ---- C03: Accepts(dt, g) - validate(g) returns (for numbers g); the exact acceptance region of each number kind
def Accepts_FloatRange(self, g):
    return is_number(g) and -FMAX <= g <= FMAX and self.min - prec_FloatRange(self, as_float(g)) <= as_float(g) <= self.max + prec_FloatRange(self, as_float(g))


def Accepts_ScaledInteger(self, g):
    return is_number(g) and self.min - self.scale <= g <= self.max + self.scale


def Accepts_IntRange(self, g):
    return is_number(g) and is_whole(g) and -FMAX <= g <= FMAX and self.min <= g <= self.max


def Accepts_EnumType(self, g):
    return EnumFound(self._enum, g)


def Accepts_BoolType(self, g):
    return is_number(g) and (num_eq(g, 0) or num_eq(g, 1))


def ClampPost(_min, value, _max, result):
    """result is the median of the three (extended order); nothing is promised for NaN"""
    if is_nan(value):
        return True
    lo = min(realnum(_min), realnum(_max))
    hi = max(realnum(_min), realnum(_max))
    if is_inf(value):
        return is_number(result) and realnum(result) == (hi if value > 0 else lo)
    v = realnum(value)
    if not is_number(result):
        return False
    r = realnum(result)
    return lo <= r <= hi and implies(lo <= v <= hi, r == v) and implies(v < lo, r == lo) and implies(v > hi, r == hi)


CONTRACTS = [
    # ------------------------------------------------------------------ lib
    dict(key='clamp', file='frappy/lib/__init__.py', func='clamp', serves=['C01'],
         requires=['is_number(_min) and is_number(_max)',
                   'is_number(value) or is_inf(value) or is_nan(value)'],
         ensures={'median': 'ClampPost(_min, value, _max, result)',
                  'identity': 'same_object(result, _min) or same_object(result, value) or same_object(result, _max)'},
         raises='never'),
    # exportProperties: only its totality matters to C01 (used for an error message); C03 verifies it
    dict(key='HasProperties.exportProperties', file='frappy/properties.py', func='HasProperties.exportProperties',
         serves=[], trusted_here=True, requires=[], ensures={'dict': 'is_dict(result)'}, raises='never',
         result_kind='dict'),
    # ------------------------------------------------------------- IntRange
    dict(key='IntRange.__call__', file='frappy/datatypes.py', func='IntRange.__call__', serves=['C01', 'C02'],
         self_type='IntRange',
         requires=['inv(self)'],
         ensures={'conv': 'Conv(self, result)', 'same': 'Den(self, result, value)'},
         raises={'badvalue': 'issubclass(exc, BadValueError)'},
         lemmas={'complete': dict(requires=['is_int(value) and -FMAX <= value <= FMAX'], ensures={'id': 'result == value and is_int(result)'},
                                  raises='never'),
                 'whole': dict(requires=['is_number(value) and is_whole(value) and -FMAX <= value <= FMAX'],
                               ensures={'same': 'is_int(result) and num_eq(result, value)'}, raises='never')},
         witness="IntRange(F['min'], F['max'])"),
    dict(key='IntRange.validate', file='frappy/datatypes.py', func='IntRange.validate', serves=['C01'],
         self_type='IntRange',
         requires=['inv(self)', 'previous is None or InSet(self, previous)'],
         ensures={'sound': 'InSet(self, result)', 'same': 'Den(self, result, value)'},
         raises={'badvalue': 'issubclass(exc, BadValueError)'},
         lemmas={'idem': dict(requires=['InSet(self, value)', 'previous is None or same_object(previous, value)'],
                              ensures={'unchanged': 'result == value and is_int(result)'}, raises='never'),
                 'accepts': dict(requires=['Accepts(self, value)'], ensures={}, raises='never')},
         witness="IntRange(F['min'], F['max'])"),
    # ----------------------------------------------------------- FloatRange
    dict(key='FloatRange.__call__', file='frappy/datatypes.py', func='FloatRange.__call__', serves=['C01', 'C02'],
         self_type='FloatRange',
         requires=['inv(self)'],
         ensures={'conv': 'Conv(self, result)', 'same': 'DenConv(self, result, value)'},
         raises={'badvalue': 'issubclass(exc, BadValueError)'},
         lemmas={'complete': dict(requires=['is_finite_float(value)'],
                                  ensures={'id': 'result == value and is_finite_float(result)'}, raises='never'),
                 'number': dict(requires=['is_number(value) and -FMAX <= value <= FMAX'],
                                ensures={'same': 'result == as_float(value)'}, raises='never')},
         witness="FloatRange(F['min'], F['max'], absolute_resolution=F['absolute_resolution'], "
                 "relative_resolution=F['relative_resolution'])"),
    dict(key='FloatRange.validate', file='frappy/datatypes.py', func='FloatRange.validate', serves=['C01'],
         self_type='FloatRange',
         requires=['inv(self)', 'previous is None or InSet(self, previous)'],
         # stated domain: a relative resolution above 1 (tolerance larger than the value itself) is outside it;
         # it is the only way `value * relative_resolution` can leave the float range
         assumes=['self.relative_resolution <= 1'],
         ensures={'sound': 'InSet(self, result)', 'same': 'Den(self, result, value)'},
         raises={'badvalue': 'issubclass(exc, BadValueError)'},
         lemmas={'idem': dict(requires=['InSet(self, value)', 'previous is None or same_object(previous, value)'],
                              ensures={'unchanged': 'result == value and is_finite_float(result)'}, raises='never'),
                 'accepts': dict(requires=['Accepts(self, value)'], ensures={}, raises='never')},
         witness="FloatRange(F['min'], F['max'], absolute_resolution=F['absolute_resolution'], "
                 "relative_resolution=F['relative_resolution'])"),
    dict(key='IntRange.import_value', file='frappy/datatypes.py', func='DataType.import_value', serves=['C01', 'C02'],
         self_type='IntRange', requires=['inv(self)', 'is_wire(value)'],
         ensures={'conv': 'ConvW(self, result)', 'same': 'DenWire(self, result, value)'},
         raises={'badvalue': 'issubclass(exc, BadValueError)'},
         lemmas={'roundtrip': dict(requires=['InSet(self, v__)', 'Exported(self, v__, value)'], ensures={'back': 'same_value(result, v__)'}, raises='never', ghost_params={'v__': 'any'})},
         witness="IntRange(F['min'], F['max'])"),
    dict(key='FloatRange.import_value', file='frappy/datatypes.py', func='DataType.import_value', serves=['C01', 'C02'],
         self_type='FloatRange', requires=['inv(self)', 'is_wire(value)'],
         ensures={'conv': 'ConvW(self, result)', 'same': 'DenWire(self, result, value)'},
         raises={'badvalue': 'issubclass(exc, BadValueError)'},
         lemmas={'roundtrip': dict(requires=['InSet(self, v__)', 'Exported(self, v__, value)'], ensures={'back': 'same_value(result, v__)'}, raises='never', ghost_params={'v__': 'any'})},
         witness="FloatRange(F['min'], F['max'])"),
    # -------------------------------------------------------- ScaledInteger
    dict(key='ScaledInteger.__call__', file='frappy/datatypes.py', func='ScaledInteger.__call__', serves=['C01', 'C02'],
         self_type='ScaledInteger', requires=['inv(self)'],
         ensures={'conv': 'Conv(self, result)', 'same': 'DenConv(self, result, value)'},
         raises={'badvalue': 'issubclass(exc, BadValueError)'},
         lemmas={'complete': dict(requires=['Conv(self, value) and is_finite_float(value) and abs(value) + self.scale <= FMAX and abs(value) <= FMAX * self.scale'], ensures={'id': 'result == value'}, raises='never')},
         witness="ScaledInteger(F['scale'], F['min'], F['max'])"),
    dict(key='ScaledInteger.validate', file='frappy/datatypes.py', func='ScaledInteger.validate', serves=['C01'],
         assume_no_float_overflow=True,
         vc=False,   # mixed integer/real nonlinear arithmetic (3 grid roundings + clamp) exceeds the solver budget: bounded stand-in
         self_type='ScaledInteger', requires=['inv(self)', 'previous is None or InSet(self, previous)', 'abs(self.min) + self.scale <= FMAX and abs(self.max) + self.scale <= FMAX'],
         ensures={'sound': 'InSet(self, result)', 'same': 'Den(self, result, value)'},
         raises={'badvalue': 'issubclass(exc, BadValueError)'},
         lemmas={'idem': dict(requires=['InSet(self, value)', 'previous is None or same_object(previous, value)'],
                              ensures={'unchanged': 'result == value'}, raises='never')},
         witness="ScaledInteger(F['scale'], F['min'], F['max'])"),
    dict(key='ScaledInteger.import_value', file='frappy/datatypes.py', func='ScaledInteger.import_value', serves=['C01', 'C02'],
         self_type='ScaledInteger', requires=['inv(self)', 'is_wire(value)'],
         ensures={'conv': 'ConvW(self, result)', 'same': 'DenWire(self, result, value)'},
         raises={'badvalue': 'issubclass(exc, BadValueError)'},
         lemmas={'roundtrip': dict(requires=['InSet(self, v__)', 'Exported(self, v__, value)'], ensures={'back': 'same_value(result, v__)'}, raises='never', ghost_params={'v__': 'any'}, vc=False)},
         witness="ScaledInteger(F['scale'], F['min'], F['max'])"),
    # ------------------------------------------------------------- EnumType
    dict(key='EnumType.__call__', file='frappy/datatypes.py', func='EnumType.__call__', serves=['C01', 'C02'],
         self_type='EnumType', requires=['inv(self)'],
         ensures={'conv': 'Conv(self, result)', 'same': 'DenConv(self, result, value)'},
         raises={'badvalue': 'issubclass(exc, BadValueError)'},
         lemmas={'complete': dict(requires=['InSet(self, value)'], ensures={'id': 'same_object(result, value)'}, raises='never'),
                 'found': dict(requires=['EnumFound(self._enum, value)'],
                               ensures={'member': 'EnumLookup(self._enum, value, result)'}, raises='never')},
         witness="EnumType('e', **F['members'])"),
    dict(key='EnumType.validate', file='frappy/datatypes.py', func='DataType.validate', serves=['C01'],
         self_type='EnumType', requires=['inv(self)', 'previous is None or InSet(self, previous)'],
         ensures={'sound': 'InSet(self, result)', 'same': 'Den(self, result, value)'},
         raises={'badvalue': 'issubclass(exc, BadValueError)'},
         lemmas={'idem': dict(requires=['InSet(self, value)', 'previous is None or same_object(previous, value)'],
                              ensures={'unchanged': 'result == value'}, raises='never')},
         witness="EnumType('e', **F['members'])"),
    dict(key='EnumType.import_value', file='frappy/datatypes.py', func='DataType.import_value', serves=['C01', 'C02'],
         self_type='EnumType', requires=['inv(self)', 'is_wire(value)'],
         ensures={'conv': 'ConvW(self, result)', 'same': 'DenWire(self, result, value)'},
         raises={'badvalue': 'issubclass(exc, BadValueError)'},
         lemmas={'roundtrip': dict(requires=['InSet(self, v__)', 'Exported(self, v__, value)'], ensures={'back': 'same_value(result, v__)'}, raises='never', ghost_params={'v__': 'any'})},
         witness="EnumType('e', **F['members'])"),
    # ------------------------------------------------------------- BLOBType
    dict(key='BLOBType.__call__', file='frappy/datatypes.py', func='BLOBType.__call__', serves=['C01', 'C02'],
         self_type='BLOBType', requires=['inv(self)'],
         ensures={'conv': 'Conv(self, result)', 'same': 'DenConv(self, result, value)'},
         raises={'badvalue': 'issubclass(exc, BadValueError)'},
         lemmas={'complete': dict(requires=['InSet(self, value)'], ensures={'id': 'result == value'}, raises='never')},
         witness="BLOBType(F['minbytes'], F['maxbytes'])"),
    dict(key='BLOBType.validate', file='frappy/datatypes.py', func='DataType.validate', serves=['C01'],
         self_type='BLOBType', requires=['inv(self)', 'previous is None or InSet(self, previous)'],
         ensures={'sound': 'InSet(self, result)', 'same': 'Den(self, result, value)'},
         raises={'badvalue': 'issubclass(exc, BadValueError)'},
         lemmas={'idem': dict(requires=['InSet(self, value)', 'previous is None or same_object(previous, value)'],
                              ensures={'unchanged': 'result == value'}, raises='never')},
         witness="BLOBType(F['minbytes'], F['maxbytes'])"),
    dict(key='BLOBType.import_value', file='frappy/datatypes.py', func='BLOBType.import_value', serves=['C01', 'C02'],
         self_type='BLOBType', requires=['inv(self)', 'is_wire(value)'],
         ensures={'conv': 'ConvW(self, result)', 'same': 'DenWire(self, result, value)'},
         raises={'badvalue': 'issubclass(exc, BadValueError)'},
         lemmas={'roundtrip': dict(requires=['InSet(self, v__)', 'Exported(self, v__, value)'], ensures={'back': 'same_value(result, v__)'}, raises='never', ghost_params={'v__': 'any'})},
         witness="BLOBType(F['minbytes'], F['maxbytes'])"),
    # ----------------------------------------------------------- StringType
    dict(key='StringType.__call__', file='frappy/datatypes.py', func='StringType.__call__', serves=['C01', 'C02'],
         self_type='StringType', requires=['inv(self)'],
         ensures={'conv': 'Conv(self, result)', 'same': 'DenConv(self, result, value)'},
         raises={'badvalue': 'issubclass(exc, BadValueError)'},
         lemmas={'complete': dict(requires=['InSet(self, value)'], ensures={'id': 'result == value'}, raises='never')},
         witness="StringType(F['minchars'], F['maxchars'], isUTF8=F['isUTF8'])"),
    dict(key='StringType.validate', file='frappy/datatypes.py', func='DataType.validate', serves=['C01'],
         self_type='StringType', requires=['inv(self)', 'previous is None or InSet(self, previous)'],
         ensures={'sound': 'InSet(self, result)', 'same': 'Den(self, result, value)'},
         raises={'badvalue': 'issubclass(exc, BadValueError)'},
         lemmas={'idem': dict(requires=['InSet(self, value)', 'previous is None or same_object(previous, value)'],
                              ensures={'unchanged': 'result == value'}, raises='never')},
         witness="StringType(F['minchars'], F['maxchars'], isUTF8=F['isUTF8'])"),
    dict(key='StringType.import_value', file='frappy/datatypes.py', func='DataType.import_value', serves=['C01', 'C02'],
         self_type='StringType', requires=['inv(self)', 'is_wire(value)'],
         ensures={'conv': 'ConvW(self, result)', 'same': 'DenWire(self, result, value)'},
         raises={'badvalue': 'issubclass(exc, BadValueError)'},
         lemmas={'roundtrip': dict(requires=['InSet(self, v__)', 'Exported(self, v__, value)'], ensures={'back': 'same_value(result, v__)'}, raises='never', ghost_params={'v__': 'any'})},
         witness="StringType(F['minchars'], F['maxchars'], isUTF8=F['isUTF8'])"),
    # ------------------------------------------------------------- BoolType
    dict(key='BoolType.__call__', file='frappy/datatypes.py', func='BoolType.__call__', serves=['C01', 'C02'],
         self_type='BoolType', requires=['inv(self)'],
         ensures={'conv': 'Conv(self, result)', 'same': 'DenConv(self, result, value)'},
         raises={'badvalue': 'issubclass(exc, BadValueError)'},
         lemmas={'complete': dict(requires=['InSet(self, value)'], ensures={'id': 'result == value'}, raises='never'),
                 'accepts': dict(requires=['Accepts(self, value)'], ensures={}, raises='never')},
         witness='BoolType()'),
    dict(key='BoolType.validate', file='frappy/datatypes.py', func='DataType.validate', serves=['C01'],
         self_type='BoolType', requires=['inv(self)', 'previous is None or InSet(self, previous)'],
         ensures={'sound': 'InSet(self, result)', 'same': 'Den(self, result, value)'},
         raises={'badvalue': 'issubclass(exc, BadValueError)'},
         lemmas={'idem': dict(requires=['InSet(self, value)', 'previous is None or same_object(previous, value)'],
                              ensures={'unchanged': 'result == value'}, raises='never')},
         witness='BoolType()'),
    dict(key='BoolType.import_value', file='frappy/datatypes.py', func='DataType.import_value', serves=['C01', 'C02'],
         self_type='BoolType', requires=['inv(self)', 'is_wire(value)'],
         ensures={'conv': 'ConvW(self, result)', 'same': 'DenWire(self, result, value)'},
         raises={'badvalue': 'issubclass(exc, BadValueError)'},
         lemmas={'roundtrip': dict(requires=['InSet(self, v__)', 'Exported(self, v__, value)'], ensures={'back': 'same_value(result, v__)'}, raises='never', ghost_params={'v__': 'any'})},
         witness='BoolType()'),
    # Enum: a dict holding every member under its name and under its code (assumed view contract,
    # validated by the bounded tier against frappy.lib.enum.Enum)
    dict(key='Enum.__getitem__', file='frappy/lib/enum.py', func='Enum.__call__', signature='self, key', serves=[],
         trusted=True, self_type='Enum', requires=['inv(self)'],
         ensures={'member': 'EnumFound(self, key) and EnumLookup(self, key, result)'},
         raises={'kind': 'issubclass(exc, KeyError) or issubclass(exc, TypeError)',
                 'typeerror': 'implies(issubclass(exc, TypeError), is_list(key) or is_dict(key) or is_set(key))',
                 'keyerror': 'implies(issubclass(exc, KeyError), not (is_list(key) or is_dict(key) or is_set(key)))'},
         lemmas={'found': dict(requires=['EnumFound(self, key)'], ensures={}, raises='never')}),
    # ---------------------------------------------------------- interface contracts of an abstract member datatype
    # (behavioural subtyping: every concrete class above/below is verified against the same clauses)
    dict(key='iface::DataType.validate', file=None, func=None, signature='self, value, previous=None', serves=[], trusted=True,
         requires=['inv(self)', 'previous is None or InSet(self, previous)'],
         ensures={'sound': 'InSet(self, result)', 'same': 'Den(self, result, value)'},
         raises={'badvalue': 'issubclass(exc, BadValueError)'},
         lemmas={'idem': dict(requires=['InSet(self, value)', 'previous is None or same_object(previous, value)'],
                              ensures={'unchanged': 'same_object(result, value)'}, raises='never')}),
    dict(key='iface::DataType.__call__', file=None, func=None, signature='self, value', serves=[], trusted=True,
         requires=['inv(self)'],
         ensures={'conv': 'Conv(self, result)', 'same': 'DenConv(self, result, value)'},
         raises={'badvalue': 'issubclass(exc, BadValueError)'},
         lemmas={'complete': dict(requires=['InSet(self, value)'], ensures={'id': 'same_object(result, value)'}, raises='never')}),
    dict(key='iface::DataType.import_value', file=None, func=None, signature='self, value', serves=[], trusted=True,
         requires=['inv(self)', 'is_wire(value)'],
         ensures={'conv': 'ConvW(self, result)', 'same': 'DenWire(self, result, value)'},
         raises={'badvalue': 'issubclass(exc, BadValueError)'},
         lemmas={'roundtrip': dict(requires=['InSet(self, v__)', 'Exported(self, v__, value)'], ensures={'back': 'same_value(result, v__)'}, raises='never', ghost_params={'v__': 'any'})}),
    # ------------------------------------------------------------- ArrayOf
    dict(key='ArrayOf.check_type', file='frappy/datatypes.py', func='ArrayOf.check_type', serves=['C01'],
         self_type='ArrayOf', requires=['inv(self)'], assumes=['in_universe(value)'],
         ensures={'shape': 'Shape_ArrayOf(self, value)', 'none': 'result is None'},
         raises={'badvalue': 'issubclass(exc, BadValueError)'},
         lemmas={'complete': dict(requires=['Shape_ArrayOf(self, value)'], ensures={}, raises='never')},
         witness="ArrayOf(MEMBER, F['minlen'], F['maxlen'])"),
    dict(key='ArrayOf.__call__', file='frappy/datatypes.py', func='ArrayOf.__call__', serves=['C01'],
         self_type='ArrayOf', requires=['inv(self)'], assumes=['in_universe(value)'],
         ensures={'conv': 'Conv(self, result)', 'same': 'DenConv(self, result, value)'},
         raises={'badvalue': 'issubclass(exc, BadValueError)'},
         lemmas={'complete': dict(requires=['InSet(self, value)'], ensures={'id': 'seq_eq(result, value)'}, raises='never')},
         witness="ArrayOf(MEMBER, F['minlen'], F['maxlen'])"),
    dict(key='ArrayOf.validate', file='frappy/datatypes.py', func='ArrayOf.validate', serves=['C01'],
         self_type='ArrayOf', requires=['inv(self)', 'previous is None or InSet(self, previous)'], assumes=['in_universe(value)'],
         ensures={'sound': 'InSet(self, result)', 'same': 'Den(self, result, value)'},
         raises={'badvalue': 'issubclass(exc, BadValueError)'},
         lemmas={'idem': dict(requires=['InSet(self, value)', 'previous is None or same_object(previous, value)'],
                              ensures={'unchanged': 'seq_eq(result, value)'}, raises='never')},
         witness="ArrayOf(MEMBER, F['minlen'], F['maxlen'])"),
    dict(key='ArrayOf.import_value', file='frappy/datatypes.py', func='ArrayOf.import_value', serves=['C01', 'C02'],
         self_type='ArrayOf', requires=['inv(self)', 'is_wire(value)'],
         ensures={'conv': 'ConvW(self, result)', 'same': 'DenWire(self, result, value)'},
         raises={'badvalue': 'issubclass(exc, BadValueError)'},
         lemmas={'roundtrip': dict(requires=['InSet(self, v__)', 'Exported(self, v__, value)'], ensures={'back': 'same_value(result, v__)'}, raises='never', ghost_params={'v__': 'any'})},
         witness="ArrayOf(MEMBER, F['minlen'], F['maxlen'])"),
    # ------------------------------------------------------------- TupleOf
    dict(key='TupleOf.check_type', file='frappy/datatypes.py', func='TupleOf.check_type', serves=['C01'],
         self_type='TupleOf', requires=['inv(self)'], assumes=['in_universe(value)'],
         ensures={'shape': 'Shape_TupleOf(self, value)', 'none': 'result is None'},
         raises={'badvalue': 'issubclass(exc, BadValueError)'},
         lemmas={'complete': dict(requires=['Shape_TupleOf(self, value)'], ensures={}, raises='never')},
         witness='TupleOf(*MEMBERS)'),
    dict(key='TupleOf.__call__', file='frappy/datatypes.py', func='TupleOf.__call__', serves=['C01'],
         self_type='TupleOf', requires=['inv(self)'], assumes=['in_universe(value)'],
         ensures={'conv': 'Conv(self, result)', 'same': 'DenConv(self, result, value)'},
         raises={'badvalue': 'issubclass(exc, BadValueError)'},
         lemmas={'complete': dict(requires=['InSet(self, value)'], ensures={'id': 'seq_eq(result, value)'}, raises='never')},
         witness='TupleOf(*MEMBERS)'),
    dict(key='TupleOf.validate', file='frappy/datatypes.py', func='TupleOf.validate', serves=['C01'],
         self_type='TupleOf', requires=['inv(self)', 'previous is None or InSet(self, previous)'], assumes=['in_universe(value)'],
         ensures={'sound': 'InSet(self, result)', 'same': 'Den(self, result, value)'},
         raises={'badvalue': 'issubclass(exc, BadValueError)'},
         lemmas={'idem': dict(requires=['InSet(self, value)', 'previous is None or same_object(previous, value)'],
                              ensures={'unchanged': 'seq_eq(result, value)'}, raises='never')},
         witness='TupleOf(*MEMBERS)'),
    dict(key='TupleOf.import_value', file='frappy/datatypes.py', func='TupleOf.import_value', serves=['C01', 'C02'],
         self_type='TupleOf', requires=['inv(self)', 'is_wire(value)'],
         ensures={'conv': 'ConvW(self, result)', 'same': 'DenWire(self, result, value)'},
         raises={'badvalue': 'issubclass(exc, BadValueError)'},
         lemmas={'roundtrip': dict(requires=['InSet(self, v__)', 'Exported(self, v__, value)'], ensures={'back': 'same_value(result, v__)'}, raises='never', ghost_params={'v__': 'any'})},
         witness='TupleOf(*MEMBERS)'),
    dict(key='IntRange.export_value', file='frappy/datatypes.py', func='IntRange.export_value', serves=['C02'],
         self_type='IntRange', requires=['inv(self)', 'InSet(self, value)'],
         ensures={'kind': 'JsonKind(self, result)', 'form': 'Exported(self, value, result)'},
         raises='never', witness="IntRange(F['min'], F['max'])"),
    dict(key='FloatRange.export_value', file='frappy/datatypes.py', func='FloatRange.export_value', serves=['C02'],
         self_type='FloatRange', requires=['inv(self)', 'InSet(self, value)'],
         ensures={'kind': 'JsonKind(self, result)', 'form': 'Exported(self, value, result)'},
         raises='never', witness="FloatRange(F['min'], F['max'])"),
    dict(key='ScaledInteger.export_value', file='frappy/datatypes.py', func='ScaledInteger.export_value', serves=['C02'],
         self_type='ScaledInteger', requires=['inv(self)', 'InSet(self, value)'], assume_no_float_overflow=True,
         ensures={'kind': 'JsonKind(self, result)', 'form': 'Exported(self, value, result)'},
         raises='never', witness="ScaledInteger(F['scale'], F['min'], F['max'])"),
    dict(key='EnumType.export_value', file='frappy/datatypes.py', func='EnumType.export_value', serves=['C02'],
         self_type='EnumType', requires=['inv(self)', 'InSet(self, value)'],
         ensures={'kind': 'JsonKind(self, result)', 'form': 'Exported(self, value, result)'},
         raises='never', witness="EnumType('e', **F['members'])"),
    dict(key='BLOBType.export_value', file='frappy/datatypes.py', func='BLOBType.export_value', serves=['C02'],
         self_type='BLOBType', requires=['inv(self)', 'InSet(self, value)'],
         ensures={'kind': 'JsonKind(self, result)', 'form': 'Exported(self, value, result)'},
         raises='never', witness="BLOBType(F['minbytes'], F['maxbytes'])"),
    dict(key='StringType.export_value', file='frappy/datatypes.py', func='StringType.export_value', serves=['C02'],
         self_type='StringType', requires=['inv(self)', 'InSet(self, value)'],
         ensures={'kind': 'JsonKind(self, result)', 'form': 'Exported(self, value, result)'},
         raises='never', witness="StringType(F['minchars'], F['maxchars'], isUTF8=F['isUTF8'])"),
    dict(key='BoolType.export_value', file='frappy/datatypes.py', func='BoolType.export_value', serves=['C02'],
         self_type='BoolType', requires=['inv(self)', 'InSet(self, value)'],
         ensures={'kind': 'JsonKind(self, result)', 'form': 'Exported(self, value, result)'},
         raises='never', witness='BoolType()'),
    dict(key='ArrayOf.export_value', file='frappy/datatypes.py', func='ArrayOf.export_value', serves=['C02'],
         self_type='ArrayOf', requires=['inv(self)', 'InSet(self, value)'],
         ensures={'kind': 'JsonKind(self, result)', 'form': 'Exported(self, value, result)'},
         raises='never', witness="ArrayOf(MEMBER, F['minlen'], F['maxlen'])"),
    dict(key='TupleOf.export_value', file='frappy/datatypes.py', func='TupleOf.export_value', serves=['C02'],
         self_type='TupleOf', requires=['inv(self)', 'InSet(self, value)'],
         ensures={'kind': 'JsonKind(self, result)', 'form': 'Exported(self, value, result)'},
         raises='never', witness='TupleOf(*MEMBERS)'),
    dict(key='iface::DataType.export_value', file=None, func=None, signature='self, value', serves=[], trusted=True,
         requires=['inv(self)', 'InSet(self, value)'],
         ensures={'kind': 'JsonKind(self, result)', 'form': 'Exported(self, value, result)'}, raises='never'),
    # ------------------------------------------------------------- C03: compatible()
    # returns only if every valid value g of self is accepted by other (ghost g ranges over all values);
    # one contract per supported target class (the receiver of the inner validate calls must be concrete)
    dict(key='FloatRange.compatible[FloatRange]', file='frappy/datatypes.py', func='FloatRange.compatible', serves=['C03'],
         self_type='FloatRange', params={'other': 'FloatRange'}, requires=['inv(self)', 'inv(other)'],
         assumes=['other.relative_resolution < 1'],   # a relative tolerance >= 1 makes the accepted region non-convex around 0
         ghost_params={'g': 'any'},
         ensures={'subset': 'implies(InSet(self, g), Accepts(other, g))', 'none': 'result is None'},
         raises={'badvalue': 'issubclass(exc, BadValueError)'},
         lemmas={'complete': dict(requires=['other.min <= self.min and self.max <= other.max'], ensures={}, raises='never')},
         witness=None),
    dict(key='FloatRange.compatible[ScaledInteger]', vc=False, file='frappy/datatypes.py', func='FloatRange.compatible', serves=['C03'],
         self_type='FloatRange', params={'other': 'ScaledInteger'}, requires=['inv(self)', 'inv(other)'],
         ghost_params={'g': 'any'}, callee_vc_false_ok=True,
         ensures={'subset': 'implies(InSet(self, g), Accepts(other, g))', 'none': 'result is None'},
         raises={'badvalue': 'issubclass(exc, BadValueError)'},
         lemmas={'complete': dict(requires=['other.min <= self.min and self.max <= other.max'], ensures={}, raises='never')},
         witness=None),
    dict(key='IntRange.compatible[IntRange]', file='frappy/datatypes.py', func='IntRange.compatible', serves=['C03'],
         self_type='IntRange', params={'other': 'IntRange'}, requires=['inv(self)', 'inv(other)'],
         ghost_params={'g': 'any'},
         ensures={'subset': 'implies(InSet(self, g), Accepts(other, g))', 'none': 'result is None'},
         raises={'badvalue': 'issubclass(exc, BadValueError)'},
         lemmas={'complete': dict(requires=['other.min <= self.min and self.max <= other.max'], ensures={}, raises='never')},
         witness=None),
    dict(key='IntRange.compatible[FloatRange]', file='frappy/datatypes.py', func='IntRange.compatible', serves=['C03'],
         self_type='IntRange', params={'other': 'FloatRange'}, requires=['inv(self)', 'inv(other)'],
         assumes=['other.relative_resolution < 1',
                  # beyond 2**53 the limits of the float type are not arbitrary reals (A1): stated domain
                  '-9007199254740992 <= self.min and self.max <= 9007199254740992'],   # a relative tolerance >= 1 makes the accepted region non-convex around 0
         ghost_params={'g': 'any'},
         ensures={'subset': 'implies(InSet(self, g), Accepts(other, g))', 'none': 'result is None'},
         raises={'badvalue': 'issubclass(exc, BadValueError)'},
         lemmas={'complete': dict(requires=['other.min <= self.min and self.max <= other.max'], ensures={}, raises='never')},
         witness=None),
    dict(key='IntRange.compatible[ScaledInteger]', vc=False, file='frappy/datatypes.py', func='IntRange.compatible', serves=['C03'],
         self_type='IntRange', params={'other': 'ScaledInteger'}, requires=['inv(self)', 'inv(other)'],
         ghost_params={'g': 'any'},
         ensures={'subset': 'implies(InSet(self, g), Accepts(other, g))', 'none': 'result is None'},
         raises={'badvalue': 'issubclass(exc, BadValueError)'},
         lemmas={'complete': dict(requires=['other.min <= self.min and self.max <= other.max'], ensures={}, raises='never')},
         witness=None),
    dict(key='IntRange.compatible[BoolType]', file='frappy/datatypes.py', func='IntRange.compatible', serves=['C03'],
         self_type='IntRange', params={'other': 'BoolType'}, requires=['inv(self)', 'inv(other)'],
         ghost_params={'g': 'any'},
         ensures={'subset': 'implies(InSet(self, g), Accepts(other, g))', 'none': 'result is None'},
         raises={'badvalue': 'issubclass(exc, BadValueError)'},
         lemmas={'complete': dict(requires=['0 <= self.min and self.max <= 1'], ensures={}, raises='never')},
         witness=None),
    dict(key='IntRange.compatible[EnumType]', file='frappy/datatypes.py', func='IntRange.compatible', serves=['C03'],
         self_type='IntRange', params={'other': 'EnumType'}, requires=['inv(self)', 'inv(other)'],
         ghost_params={'g': 'any'},
         ensures={'subset': 'implies(InSet(self, g), Accepts(other, g))', 'none': 'result is None'},
         raises={'badvalue': 'issubclass(exc, BadValueError)'},
         lemmas={'complete': dict(requires=['forall_int(lambda j: implies(self.min <= j and j <= self.max, enum_has_code(other._enum, j)))'], ensures={}, raises='never')},
         witness=None),
    dict(key='ScaledInteger.compatible[FloatRange]', vc=False, file='frappy/datatypes.py', func='ScaledInteger.compatible', serves=['C03'],
         self_type='ScaledInteger', params={'other': 'FloatRange'}, requires=['inv(self)', 'inv(other)'],
         assumes=['other.relative_resolution < 1'],   # a relative tolerance >= 1 makes the accepted region non-convex around 0
         ghost_params={'g': 'any'},
         ensures={'subset': 'implies(InSet(self, g), Accepts(other, g))', 'none': 'result is None'},
         raises={'badvalue': 'issubclass(exc, BadValueError)'},
         lemmas={'complete': dict(requires=['other.min <= self.min and self.max <= other.max'], ensures={}, raises='never')},
         witness=None),
    dict(key='ScaledInteger.compatible[ScaledInteger]', vc=False, file='frappy/datatypes.py', func='ScaledInteger.compatible', serves=['C03'],
         self_type='ScaledInteger', params={'other': 'ScaledInteger'}, requires=['inv(self)', 'inv(other)'],
         ghost_params={'g': 'any'},
         ensures={'subset': 'implies(InSet(self, g), Accepts(other, g))', 'none': 'result is None'},
         raises={'badvalue': 'issubclass(exc, BadValueError)'},
         lemmas={'complete': dict(requires=['other.min <= self.min and self.max <= other.max'], ensures={}, raises='never')},
         witness=None),
]

LOOPS = {
    # IntRange.compatible: for i in range(self.min, self.max + 1): other(i)
    'IntRange.compatible#0': dict(header='range(self.min, self.max + 1)',
                                  invariant={'accepted': 'forall_int(lambda j: implies(self.min <= j and j < self.min + i__, Accepts(other, j)))'}),
}

# concrete member types tried when a counter-model over an abstract member datatype is replayed
CATALOGUE = ['IntRange(-5, 5)', 'FloatRange(-5.0, 5.0)', 'StringType(0, 3)', 'BoolType()', 'BLOBType(0, 3)',
             "EnumType('e', a=1, b=2)", 'ScaledInteger(0.5, -5, 5)', 'ArrayOf(IntRange(0, 3), 0, 2)',
             'TupleOf(IntRange(0, 3), BoolType())', 'StructOf(a=IntRange(0, 3), b=StringType(0, 3), optional=["b"])',
             'IntRange(0, 2 ** 62)', 'FloatRange()', 'StringType()']



# native dispatchers (the VC generator has its own dispatch rule: <name>_<static class>, else uninterpreted)
InSet = make_dispatcher('InSet')
Den = make_dispatcher('Den')
Conv = make_dispatcher('Conv')
DenWire = make_dispatcher('DenWire')
DenConv = make_dispatcher('DenConv')
ConvW = make_dispatcher('ConvW')
Accepts = make_dispatcher('Accepts')
JsonKind = make_dispatcher('JsonKind')
Exported = make_dispatcher('Exported')
register(globals())
