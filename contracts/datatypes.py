"""Sidecar contracts for frappy/datatypes.py (C01, C02, C03) - plain data + spec functions.

One text, two uses: the VC generator parses this file (spec functions are
executed symbolically), replay and the bounded tier import it under CPython.
"""
from pyvc.native import *      # noqa: F401,F403  (contract-language builtins, native meaning)

CONTEXT_FILE = 'frappy/datatypes.py'
SOURCES = ['frappy/datatypes.py', 'frappy/properties.py', 'frappy/lib/enum.py']
DISPATCHED = ['InSet', 'Den', 'Conv', 'DenWire']
INLINE = []

ASSUMPTIONS = [
    'A1 float arithmetic is real arithmetic (no rounding); overflow to +-inf, NaN propagation and unordered NaN are modelled',
    'A2 generalConfig.lazy_number_validation is False (its default)',
    'A3 logging never raises',
    'A4 dictionaries have string keys',
    'A6 no BaseException other than Exception subclasses',
    'A7 termination is not proved',
    'a Property attribute read (self.min ...) is the value stored by setProperty->validate of the declared Property datatype'
    ' (class invariants are read from the Property declarations)',
    'the receiver has exactly the class under verification (subclasses overriding a method need their own obligations)',
]

FMAX = 1.7976931348623157e+308

# ---------------------------------------------------------------------------
# class schemas: fields (Property values / attributes) and their kinds
# ---------------------------------------------------------------------------
CLASSES = {
    'DataType': dict(abstract=True, fields={}),
    'FloatRange': dict(fields={'min': 'float', 'max': 'float', 'absolute_resolution': 'float',
                               'relative_resolution': 'float', 'fmtstr': 'str', 'unit': 'str'}),
    'IntRange': dict(fields={'min': 'int', 'max': 'int'}),
}


# ---------------------------------------------------------------------------
# spec functions: the declared value sets (from the datainfo, not from the code)
# ---------------------------------------------------------------------------
def InSet_IntRange(self, v):
    return is_int(v) and self.min <= v <= self.max


def Conv_IntRange(self, v):
    return is_int(v)


def Den_IntRange(self, result, offered):
    # denotes the same number; strings, fractions, inf/nan never do
    return num_eq(result, offered)


def InSet_FloatRange(self, v):
    return is_finite_float(v) and self.min <= v <= self.max


def Conv_FloatRange(self, v):
    return is_finite_float(v) and -FMAX <= v <= FMAX


def prec_FloatRange(self, offered):
    return max(abs(offered * self.relative_resolution), self.absolute_resolution)


def Den_FloatRange(self, result, offered):
    # the same number, or within the documented resolution tolerance of it (clamped to a limit),
    # +-infinity is documented to map to +-float_max
    if is_inf(offered):
        return result == (FMAX if offered > 0 else -FMAX) or result == self.min or result == self.max
    if not is_number(offered) and not is_enum(offered):
        return False
    return result == offered or (abs(result - offered) <= prec_FloatRange(self, offered)
                                 and (result == self.min or result == self.max))


def DenConv_FloatRange(self, result, offered):
    if is_inf(offered):
        return result == (FMAX if offered > 0 else -FMAX)
    return (is_number(offered) or is_enum(offered)) and result == offered


def ClampPost(_min, value, _max, result):
    """result is the median of the three (extended order); nothing is promised for NaN"""
    if is_nan(value):
        return True
    lo = min(realnum(_min), realnum(_max))
    hi = max(realnum(_min), realnum(_max))
    if is_inf(value):
        return is_number(result) and realnum(result) == (hi if value > 0 else lo)
    v = realnum(value)
    if not is_number(result):
        return False
    r = realnum(result)
    return lo <= r <= hi and implies(lo <= v <= hi, r == v) and implies(v < lo, r == lo) and implies(v > hi, r == hi)


CONTRACTS = [
    # ------------------------------------------------------------------ lib
    dict(key='clamp', file='frappy/lib/__init__.py', func='clamp', serves=['C01'],
         requires=['is_number(_min) and is_number(_max)',
                   'is_number(value) or is_inf(value) or is_nan(value)'],
         ensures={'median': 'ClampPost(_min, value, _max, result)',
                  'identity': 'same_object(result, _min) or same_object(result, value) or same_object(result, _max)'},
         raises='never'),
    # exportProperties: only its totality matters to C01 (used for an error message); C03 verifies it
    dict(key='HasProperties.exportProperties', file='frappy/properties.py', func='HasProperties.exportProperties',
         serves=[], trusted_here=True, requires=[], ensures={'dict': 'is_dict(result)'}, raises='never',
         result_kind='dict'),
    # ------------------------------------------------------------- IntRange
    dict(key='IntRange.__call__', file='frappy/datatypes.py', func='IntRange.__call__', serves=['C01'],
         self_type='IntRange',
         requires=['inv(self)'],
         ensures={'conv': 'Conv(self, result)', 'same': 'Den(self, result, value)'},
         raises={'badvalue': 'issubclass(exc, BadValueError)'},
         lemmas={'complete': dict(requires=['is_int(value) and -FMAX <= value <= FMAX'], ensures={'id': 'result == value and is_int(result)'},
                                  raises='never')},
         witness="IntRange(F['min'], F['max'])"),
    dict(key='IntRange.validate', file='frappy/datatypes.py', func='IntRange.validate', serves=['C01'],
         self_type='IntRange',
         requires=['inv(self)', 'previous is None or InSet(self, previous)'],
         ensures={'sound': 'InSet(self, result)', 'same': 'Den(self, result, value)'},
         raises={'badvalue': 'issubclass(exc, BadValueError)'},
         lemmas={'idem': dict(requires=['InSet(self, value)', 'previous is None or py_eq(previous, value)'],
                              ensures={'unchanged': 'result == value and is_int(result)'}, raises='never')},
         witness="IntRange(F['min'], F['max'])"),
    # ----------------------------------------------------------- FloatRange
    dict(key='FloatRange.__call__', file='frappy/datatypes.py', func='FloatRange.__call__', serves=['C01'],
         self_type='FloatRange',
         requires=['inv(self)'],
         ensures={'conv': 'Conv(self, result)', 'same': 'DenConv_FloatRange(self, result, value)'},
         raises={'badvalue': 'issubclass(exc, BadValueError)'},
         lemmas={'complete': dict(requires=['is_finite_float(value)'],
                                  ensures={'id': 'result == value and is_finite_float(result)'}, raises='never')},
         witness="FloatRange(F['min'], F['max'], absolute_resolution=F['absolute_resolution'], "
                 "relative_resolution=F['relative_resolution'])"),
    dict(key='FloatRange.validate', file='frappy/datatypes.py', func='FloatRange.validate', serves=['C01'],
         self_type='FloatRange',
         requires=['inv(self)', 'previous is None or InSet(self, previous)'],
         ensures={'sound': 'InSet(self, result)', 'same': 'Den(self, result, value)'},
         raises={'badvalue': 'issubclass(exc, BadValueError)'},
         lemmas={'idem': dict(requires=['InSet(self, value)', 'previous is None or py_eq(previous, value)'],
                              ensures={'unchanged': 'result == value and is_finite_float(result)'}, raises='never')},
         witness="FloatRange(F['min'], F['max'], absolute_resolution=F['absolute_resolution'], "
                 "relative_resolution=F['relative_resolution'])"),
]

LOOPS = {}


# native dispatchers (the VC generator has its own dispatch rule: <name>_<static class>, else uninterpreted)
InSet = make_dispatcher('InSet')
Den = make_dispatcher('Den')
Conv = make_dispatcher('Conv')
DenWire = make_dispatcher('DenWire')
register(globals())
