"""Sidecar contracts for the wire protocol (C07): framing of the TCP request handler."""
from pyvc.native import *      # noqa: F401,F403

CONTEXT_FILE = 'frappy/protocol/interface/tcp.py'
SOURCES = ['frappy/protocol/interface/__init__.py', 'frappy/protocol/interface/tcp.py',
           'frappy/protocol/interface/handler.py', 'frappy/errors.py']
GHOSTS = ['log_taken', 'log_replies', 'log_async']
INLINE = ['DecodeError.raw_msg']
ASSUMPTIONS = [
    'A3/A6/A7 as for the other properties',
    'decode_msg (strip / utf-8 decode / split / json.loads) is an assumed codec contract: any triple or any exception',
    'the socket layer (recv / sendall) is outside the contracts',
]
HELPREQUEST = 'help'

CLASSES = {
    'TCPRequestHandler': dict(fields={'data': 'bytes', 'running': 'bool'}),
    'DecodeError': dict(fields={'_raw_msg': 'bytes'}),
    'RequestHandler': dict(fields={'running': 'bool', 'server': 'Server', 'data': 'any'},
                           virtual=['receive', 'ingest', 'next_message', 'send_reply']),
    'Server': dict(fields={'detailed_errors': 'bool', 'dispatcher': 'Dispatcher'}),
    'Dispatcher': dict(fields={}),
    'Exception': dict(fields={}, bases=[]),
}


def Framed(data, head, tail):
    """head is the first line of data (without its newline), tail what follows it"""
    return is_bytes(head) and is_bytes(tail) and data == head + b'\n' + tail and b'\n' not in head


def CodecInverse(frame, action, specifier, data):
    from frappy.protocol.interface import decode_msg
    if data is None and not specifier:
        return decode_msg(frame) == (action, None, None)
    if data is not None and not specifier:
        # a triple with data but without specifier has no wire form of its own (the data would be read as specifier): SECoP uses '.'
        return True
    return decode_msg(frame) == (action, specifier, data)


CONTRACTS = [
    dict(key='get_msg', file='frappy/protocol/interface/__init__.py', func='get_msg', serves=['C07'],
         params={'_bytes': 'bytes'}, requires=[],
         ensures={'pair': '(is_tuple(result) or is_list(result)) and len(result) == 2',
                  'noline': "implies(b'\\n' not in _bytes, result[0] is None and result[1] == _bytes)",
                  'line': "implies(b'\\n' in _bytes, Framed(_bytes, result[0], result[1]))",
                  },
         raises='never'),
    dict(key='decode_msg', file='frappy/protocol/interface/__init__.py', func='decode_msg', serves=[], trusted=True,
         requires=[], ensures={'triple': 'is_tuple(result) and len(result) == 3'}, raises={}, result_kind='tuple'),
    dict(key='TCPRequestHandler.ingest', file='frappy/protocol/interface/tcp.py', func='TCPRequestHandler.ingest', serves=['C07'],
         self_type='TCPRequestHandler', params={'newdata': 'bytes'}, requires=['inv(self)'], modifies=['data'],
         ensures={'append': 'self.data == old(self.data) + newdata'}, raises='never'),
    dict(key='TCPRequestHandler.next_message', file='frappy/protocol/interface/tcp.py', func='TCPRequestHandler.next_message',
         serves=['C07'], self_type='TCPRequestHandler', requires=['inv(self)'], modifies=['data'],
         ensures={'none': "implies(result is None, b'\\n' not in old(self.data) and self.data == old(self.data))",
                  'consumed': "implies(result is not None, b'\\n' in old(self.data) and Consumed(old(self.data), self.data))"},
         raises={'cls': 'issubclass(exc, DecodeError)',
                 'consumed': "b'\\n' in old(self.data) and Consumed(old(self.data), self.data)"}),
    # ---- the request loop (base class): abstract transport methods by interface contracts with ghost logs
    #      log_taken: one entry per request line taken out of the buffer; log_replies: reply lines sent
    #      (lines of action '_' - help text, asynchronous - are logged in log_async)
    dict(key='iface::RequestHandler.receive', file=None, func=None, signature='self', serves=[], trusted=True, requires=[],
         ensures={'bytes': 'result is None or is_bytes(result)'},
         raises={'cls': 'issubclass(exc, ConnectionClose)'}),
    dict(key='iface::RequestHandler.ingest', file=None, func=None, signature='self, newdata', serves=[], trusted=True,
         requires=['is_bytes(newdata)'], modifies=['data'], ensures={}, raises='never'),
    dict(key='iface::RequestHandler.next_message', file=None, func=None, signature='self', serves=[], trusted=True,
         requires=[], modifies=['data'], ghost_modifies=['log_taken'],
         ensures={'none': 'implies(result is None, log_taken == old(log_taken))',
                  'msg': 'implies(result is not None, is_tuple(result) and len(result) == 3 and is_str(result[0])'
                         ' and log_taken == old(log_taken) + [result])'},
         raises_type='DecodeError',
         raises={'raw': 'is_bytes(excval._raw_msg)',
                 'taken': 'len(log_taken) == len(old(log_taken)) + 1'}),
    dict(key='iface::RequestHandler.send_reply', file=None, func=None, signature='self, data', serves=[], trusted=True,
         requires=["(is_tuple(data) or is_list(data)) and len(data) == 3 and is_str(data[0])"],
         modifies=['running'], ghost_modifies=['log_replies', 'log_async'],
         ensures={'inv': 'inv(self)',
                  'reply': "implies(not IsAsync(data), log_replies == old(log_replies) + [data] and log_async == old(log_async))",
                  'async': "implies(IsAsync(data), log_async == old(log_async) + [data] and log_replies == old(log_replies))"},
         raises='never'),
    dict(key='Dispatcher.handle_request', file=None, func=None, signature='self, conn, msg', serves=[], trusted=True,
         requires=['is_tuple(msg) and len(msg) == 3'], ghost_modifies=['log_async'],
         ensures={'triple': "(is_tuple(result) or is_list(result)) and len(result) == 3 and is_str(result[0]) and not IsAsync(result)"
                            " and not result[0].startswith('error_')"},
         raises={}),
    dict(key='formatException', file=None, func=None, packed_args=True, serves=[], trusted=True, requires=[],
         ensures={'text': 'is_str(result)'}, raises='never', result_kind='str'),
    dict(key='formatExtendedStack', file=None, func=None, packed_args=True, serves=[], trusted=True, requires=[],
         ensures={'text': 'is_str(result)'}, raises='never', result_kind='str'),
    dict(key='formatExtendedTraceback', file=None, func=None, packed_args=True, serves=[], trusted=True, requires=[],
         ensures={'text': 'is_str(result)'}, raises='never', result_kind='str'),
    dict(key='sys.exc_info', file=None, func=None, signature='', serves=[], trusted=True, requires=[],
         ensures={}, raises='never'),
    # the codec (bounded stand-in only): every triple whose data part is a JSON value - anything json.loads can produce, strings with
    # lone surrogates included - is framed as one UTF-8 line that decodes to the same triple
    dict(key='encode_msg_frame', vc=False, file='frappy/protocol/interface/__init__.py', func='encode_msg_frame', serves=['C07'],
         requires=[],
         ensures={'one_line': "is_bytes(result) and result.endswith(b'\\n') and b'\\n' not in result[:-1] and b'\\r' not in result",
                  'utf8': "result.decode('utf-8') is not None",
                  'inverse': 'CodecInverse(result, action, specifier, data)'},
         raises='never'),
    dict(key='RequestHandler.handle_help', file='frappy/protocol/interface/handler.py', func='RequestHandler.handle_help',
         serves=['C07'], self_type='RequestHandler', requires=['inv(self)'], modifies=['running'],
         ghost_modifies=['log_async'],
         ensures={'inv': 'inv(self)', 'no_reply': 'log_replies == old(log_replies)'}, raises='never'),
    dict(key='RequestHandler.handle', file='frappy/protocol/interface/handler.py', func='RequestHandler.handle',
         serves=['C07'], self_type='RequestHandler',
         requires=['inv(self)', 'len(log_replies) == len(log_taken)'],
         modifies=['data', 'running'], ghost_modifies=['log_taken', 'log_replies', 'log_async'],
         ensures={'one_reply_per_line': 'len(log_replies) == len(log_taken)'}, raises='never',
         # clauses evaluated only by the bounded stand-in (real dispatcher, real codec behind a scripted socket)
         bounded_ensures={'wellformed': 'WireWellFormed(wire_out)',
                          'echo': 'all(ReplyMatches(t, r) for t, r in zip(log_taken, log_replies))',
                          'chunking': 'Normalized(log_replies) == reference',
                          'drained': "self.data is None or b'\\n' not in self.data"}),
]
LOOPS = {
    'RequestHandler.handle_help#0': dict(header='enumerate(HelpMessage.splitlines())', ghost=['log_async'], modifies=['running'],
        invariant={'inv': 'inv(self)', 'no_reply': 'log_replies == old(log_replies)'}),
    'RequestHandler.handle#0': dict(header='self.running', ghost=['log_taken', 'log_replies', 'log_async'], modifies=['data', 'running'],
        invariant={'inv': 'inv(self)', 'paired': 'len(log_replies) == len(log_taken)'}),
    'RequestHandler.handle#1': dict(header='self.running', ghost=['log_taken', 'log_replies', 'log_async'], modifies=['data', 'running'],
        invariant={'inv': 'inv(self)', 'paired': 'len(log_replies) == len(log_taken)'}),
}


REPLY_OF = {'describe': 'describing', 'activate': 'active', 'deactivate': 'inactive', 'do': 'done', 'change': 'changed',
            'read': 'reply', 'ping': 'pong', 'help': 'helping', 'logging': 'logging', '*IDN?': 'ISSE&SINE2020,SECoP,V2019-09-16,v1.0',
            '_ident': 'ISSE&SINE2020,SECoP,V2019-09-16,v1.0'}


def ReplyMatches(taken, reply):
    """(bounded only) the reply belongs to the request: its reply action, or error_<action> with a SECoP error class;
    the specifier is echoed"""
    import frappy.errors
    action, spec = taken[0], taken[1]
    if taken[0] == '<undecodable>':
        return reply[0].startswith('error_') and reply[2][0] in frappy.errors.SECoPError.name2class
    if reply[0] == 'error_' + action:
        return reply[1] == spec and isinstance(reply[2], list) and len(reply[2]) == 3 \
            and reply[2][0] in frappy.errors.SECoPError.name2class and isinstance(reply[2][1], str)
    if action in ('*IDN?', '_ident'):
        return reply[0] == REPLY_OF[action]
    if action == 'describe' and reply[0] == 'describing':
        return reply[1] == '.'          # SECoP: the description reply always names the node as '.'
    return reply[0] == REPLY_OF.get(action) and reply[1] == spec


def WireWellFormed(wire):
    """(bounded only) what went to the socket is a sequence of whole lines: UTF-8, one LF at the end, strict JSON data part"""
    import json

    def bad(c):
        raise ValueError(c)
    for chunk in wire:
        if not chunk.endswith(b'\n') or b'\n' in chunk[:-1]:
            return False
        try:
            parts = chunk[:-1].decode('utf-8').split(' ', 2)
            if len(parts) == 3:
                json.loads(parts[2], parse_constant=bad)
        except ValueError:
            return False
    return True


def Normalized(replies):
    import json
    out = []
    for r in replies:
        r = json.loads(json.dumps(r, default=repr))
        if isinstance(r[2], list) and len(r[2]) == 2 and isinstance(r[2][1], dict):
            r[2][1].pop('t', None)
        out.append(r)
    return out


def IsAsync(data):
    """lines sent by the request loop itself that are not replies: the help text lines.  (Events are sent by the
    dispatcher from inside handle_request; they are logged in log_async by that contract's frame.)"""
    return data[0] == '_'


def Consumed(before, after):
    """exactly the first line (up to and including its newline) was removed from the buffer"""
    return line_removed(before, after)


register(globals())
