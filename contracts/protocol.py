"""Sidecar contracts for the wire protocol (C07): framing of the TCP request handler."""
from pyvc.native import *      # noqa: F401,F403

CONTEXT_FILE = 'frappy/protocol/interface/tcp.py'
SOURCES = ['frappy/protocol/interface/__init__.py', 'frappy/protocol/interface/tcp.py',
           'frappy/protocol/interface/handler.py', 'frappy/errors.py']
GHOSTS = []
ASSUMPTIONS = [
    'A3/A6/A7 as for the other properties',
    'decode_msg (strip / utf-8 decode / split / json.loads) is an assumed codec contract: any triple or any exception',
    'the socket layer (recv / sendall) is outside the contracts',
]
HELPREQUEST = 'help'

CLASSES = {
    'TCPRequestHandler': dict(fields={'data': 'bytes', 'running': 'bool'}),
    'DecodeError': dict(fields={'_raw_msg': 'any'}),
    'Exception': dict(fields={}, bases=[]),
}


def Framed(data, head, tail):
    """head is the first line of data (without its newline), tail what follows it"""
    return is_bytes(head) and is_bytes(tail) and data == head + b'\n' + tail and b'\n' not in head


CONTRACTS = [
    dict(key='get_msg', file='frappy/protocol/interface/__init__.py', func='get_msg', serves=['C07'],
         params={'_bytes': 'bytes'}, requires=[],
         ensures={'pair': '(is_tuple(result) or is_list(result)) and len(result) == 2',
                  'noline': "implies(b'\\n' not in _bytes, result[0] is None and result[1] == _bytes)",
                  'line': "implies(b'\\n' in _bytes, Framed(_bytes, result[0], result[1]))",
                  },
         raises='never'),
    dict(key='decode_msg', file='frappy/protocol/interface/__init__.py', func='decode_msg', serves=[], trusted=True,
         requires=[], ensures={'triple': 'is_tuple(result) and len(result) == 3'}, raises={}, result_kind='tuple'),
    dict(key='TCPRequestHandler.ingest', file='frappy/protocol/interface/tcp.py', func='TCPRequestHandler.ingest', serves=['C07'],
         self_type='TCPRequestHandler', params={'newdata': 'bytes'}, requires=['inv(self)'], modifies=['data'],
         ensures={'append': 'self.data == old(self.data) + newdata'}, raises='never'),
    dict(key='TCPRequestHandler.next_message', file='frappy/protocol/interface/tcp.py', func='TCPRequestHandler.next_message',
         serves=['C07'], self_type='TCPRequestHandler', requires=['inv(self)'], modifies=['data'],
         ensures={'none': "implies(result is None, b'\\n' not in old(self.data) and self.data == old(self.data))",
                  'consumed': "implies(result is not None, b'\\n' in old(self.data) and Consumed(old(self.data), self.data))"},
         raises={'cls': 'issubclass(exc, DecodeError)',
                 'consumed': "b'\\n' in old(self.data) and Consumed(old(self.data), self.data)"}),
]
LOOPS = {}


def Consumed(before, after):
    """exactly the first line (up to and including its newline) was removed from the buffer"""
    return line_removed(before, after)


register(globals())
