"""Sidecar contracts for the node side: dispatcher, module base (wrappers, announceUpdate), params.

Ghost state (added by contracts only):
  driver_calls : list of (module, parameter-or-command name, value) - every invocation of a driver write
                 method / command function (C04)
  hook_calls   : list of (module, name, value) - invocations of check_<p> hooks (C04)
  sent         : list of (module, parameter name, value-or-error) - update messages handed to the
                 dispatcher callback (C05)
"""
from pyvc.native import *      # noqa: F401,F403

CONTEXT_FILE = 'frappy/protocol/dispatcher.py'
SOURCES = ['frappy/datatypes.py', 'frappy/properties.py', 'frappy/lib/enum.py', 'frappy/errors.py',
           'frappy/params.py', 'frappy/modulebase.py', 'frappy/protocol/dispatcher.py', 'frappy/secnode.py']
DISPATCHED = ['InSet', 'Den', 'Conv', 'DenWire', 'DenConv', 'JsonKind', 'Exported', 'ConvW', 'Accepts']
DISPATCH_FALLBACK = {'DenWire': 'DenConv', 'Conv': 'InSet', 'DenConv': 'Den', 'ConvW': 'Conv'}
INLINE = ['Parameter.export_value', 'secop_error']
# kinds of the members of the value sets (each InSet_<Class> of contracts/datatypes.py starts with this kind test)
_KINDS = [('TupleOf', 'tuple'), ('ArrayOf', 'tuple'), ('StructOf', 'dict'), ('IntRange', 'int'),
          ('BoolType', 'bool'), ('StringType', 'str'), ('BLOBType', 'bytes'), ('EnumType', 'enum')]
ABSTRACT_FACTS = {'Conv': _KINDS, 'ConvW': _KINDS, 'InSet': [('TupleOf', 'tuple'), ('ArrayOf', 'tuple'), ('StructOf', 'dict'), ('IntRange', 'int'),
                            ('FloatRange', 'float'), ('ScaledInteger', 'float'), ('BoolType', 'bool'), ('StringType', 'str'),
                            ('BLOBType', 'bytes'), ('EnumType', 'enum')]}
GHOSTS = ['driver_calls', 'hook_calls', 'sent']
# module_of(secnode, name): the module object SecNode.get_module(name) hands out (None when there is none)
UFS = {'module_of': (['obj', 'str'], 'val', 'Module|none'),
       # wname(f): the parameter name a driver write method belongs to (f is getattr(cls, 'write_' + wname(f)))
       'wname': (['obj'], 'str')}
DYN_TYPES = {'Module': [('write_', 'dyn::Module.write_', 'pname'), ('read_', 'dyn::Module.read_', 'pname')]}

ASSUMPTIONS = [
    'A3 logging never raises',
    'A6 no BaseException other than Exception subclasses',
    'A7 termination is not proved',
    'module shape is abstract: parameters / commands / accessiblename2attr are symbolic finite maps satisfying the'
    ' representation invariant ModInv (established by Module.__init__/_add_accessible, C06/C10)',
    'generated module classes (metaclass machinery of HasAccessibles.__init_subclass__) are abstracted: the wrapper closures'
    ' new_rfunc/new_wfunc are verified with symbolic closure variables (pname, rfunc/wfunc, check_funcs)',
    'driver methods (write_<p>, read_<p>, command functions, check_<p> hooks) are abstract callees: they may return any'
    ' value or raise any Exception; each call is recorded in a ghost log',
    'the cached value of a parameter lies in the value set of its datatype (needed as `previous` of validate);'
    ' driver-provided out-of-range values are outside the stated domain',
]

CLASSES = {
    'DataType': dict(abstract=True, fields={}),
    'Accessible': dict(fields={'export': 'any', 'name': 'str'}),
    'Parameter': dict(fields={'datatype': 'DataType', 'value': 'any', 'readerror': 'any', 'timestamp': 'float|none',
                              'constant': 'any', 'readonly': 'bool', 'export': 'any', 'name': 'str',
                              'omit_unchanged_within': 'float', 'default': 'any', 'given': 'bool'},
                      inv=['inv(self.datatype)', 'self.value is None or InSet(self.datatype, self.value)',
                           'is_str(self.export) or self.export is False',
                           'self.timestamp is None or self.timestamp >= 0', 'self.omit_unchanged_within >= 0']),
    'Command': dict(fields={'argument': 'DataType|none', 'result': 'DataType|none', 'export': 'any', 'name': 'str',
                            'func': 'callable:cmdfunc'},
                    inv=['self.argument is None or inv(self.argument)', 'self.result is None or inv(self.result)']),
    'Module': dict(fields={'name': 'str', 'parameters': 'dict:Parameter', 'commands': 'dict:Command',
                           'accessiblename2attr': 'dict:str', 'export': 'any', 'accessLock': 'rlock', 'updateLock': 'rlock',
                           'paramCallbacks': 'dict:list:tuple|callable:paramcallback|tuple', 'updateCallback': 'callable:updateCallback', 'log': 'any'},
                   elem_inv={'accessiblename2attr': 'WireOk(self, k, v)', 'parameters': 'ParamOk(self, k, v)',
                             'commands': 'CommandOk(self, k, v)'}),
    'SecNode': dict(fields={'modules': 'dict:Module', 'export': 'list:str'}),
    'Exception': dict(fields={'raising_methods': 'any', 'report_error': 'any'}, bases=[]),
    'SECoPError': dict(fields={'raising_methods': 'list', 'report_error': 'bool'}),
    'Dispatcher': dict(fields={'secnode': 'SecNode', 'log': 'any'}),
}


def WireOk(m, k, v):
    """wire names map to (names of) exported parameters or commands"""
    return is_str(v) and (v in m.parameters or v in m.commands)


def ParamOk(m, k, v):
    return (inv(v) and v.name == k and not (k in m.commands)
            # the generated wrappers exist: read_<p> always, write_<p> unless the parameter is read-only
            and has_dyn(m, 'read_' + k) and (v.readonly or has_dyn(m, 'write_' + k)))


def CommandOk(m, k, v):
    return inv(v) and v.name == k


def ModuleOk(sn, k, v):
    return inv(v) and v.name == k


def AtMostOneMore(old_log, new_log):
    return is_prefix(old_log, new_log) and len(new_log) <= len(old_log) + 1


def ValidWriteCall(m, pname, offered, call):
    """the recorded driver call carries a member of the parameter's value set that denotes the offered value"""
    return (same_object(nth(call, 0), m) and nth(call, 1) == pname
            and InSet(m.parameters[pname].datatype, nth(call, 2)) and Den(m.parameters[pname].datatype, nth(call, 2), offered))


def WriteCalls(m, pname, value, dc0, dc1, hc0, hc1):
    return (AtMostOneMore(dc0, dc1) and is_prefix(hc0, hc1)
            and implies(len(dc1) > len(dc0), ValidWriteCall(m, pname, value, last(dc1))))


def WriteCallsExc(m, pname, value, dc0, dc1, hc0, hc1, exc):
    return (WriteCalls(m, pname, value, dc0, dc1, hc0, hc1)
            and implies(len(dc1) == len(dc0) and len(hc1) == len(hc0), issubclass(exc, BadValueError)))


def Fitting(exc):
    """error classes that tell the client what was wrong with the request"""
    return (issubclass(exc, NoSuchModuleError) or issubclass(exc, NoSuchParameterError) or issubclass(exc, NoSuchCommandError)
            or issubclass(exc, ReadOnlyError) or issubclass(exc, BadValueError) or issubclass(exc, ProtocolError))


def ChangeTarget(self, modulename, exportedname):
    """the (module, parameter name) a change request addresses, or None when it must be refused"""
    mod = module_of(self.secnode, modulename)
    if mod is None:
        return None
    if exportedname not in mod.accessiblename2attr:
        return None
    pname = mod.accessiblename2attr[exportedname]
    if pname not in mod.parameters:
        return None
    if mod.parameters[pname].constant is not None or mod.parameters[pname].readonly:
        return None
    return (mod, pname)


def ChangeAllowed(self, modulename, exportedname):
    return ChangeTarget(self, modulename, exportedname) is not None


def LastCallValid(target, calls):
    """the driver call just recorded is the write of the addressed parameter with a member of its value set"""
    if target is None:
        return False
    call = last(calls)
    return (same_object(nth(call, 0), target[0]) and nth(call, 1) == target[1]
            and InSet(target[0].parameters[target[1]].datatype, nth(call, 2)))


def CommandTarget(self, modulename, exportedname):
    """the (module, command name) a do request addresses, or None when it must be refused"""
    mod = module_of(self.secnode, modulename)
    if mod is None:
        return None
    if exportedname not in mod.accessiblename2attr:
        return None
    cname = mod.accessiblename2attr[exportedname]
    if cname not in mod.commands:
        return None
    return (mod, cname)


def ArgOk(argtype, args, kwds):
    """the arguments a command function was called with are the validated argument, unpacked as documented"""
    if argtype is None:
        return len(args) == 0 and len(kwds) == 0
    if isinstance(argtype, TupleOf):
        return InSet(argtype, args) and len(kwds) == 0
    if isinstance(argtype, StructOf):
        return InSet(argtype, kwds) and len(args) == 0
    return len(args) == 1 and InSet(argtype, args[0]) and len(kwds) == 0


def CommandCall(cmd, module_obj, call):
    return (same_object(nth(call, 0), module_obj) and nth(call, 1) == cmd.name
            and ArgOk(cmd.argument, nth(call, 2, 'tuple'), nth(call, 3, 'dict')))


def LastCommandValid(target, calls):
    """the recorded command call is the addressed command with a member of the argument value set (or no argument)"""
    if target is None:
        return False
    return CommandCall(target[0].commands[target[1]], target[0], last(calls))


def DoCalls(cmd, module_obj, dc0, dc1):
    return AtMostOneMore(dc0, dc1) and implies(len(dc1) > len(dc0), CommandCall(cmd, module_obj, last(dc1)))


def SplitSpec(specifier, default):
    """(module name, accessible name) addressed by a specifier"""
    if ':' in specifier:
        parts = specifier.split(':', 1)
        return (parts[0], parts[1])
    return (specifier, default)


def ReadTarget(self, modulename, exportedname):
    mod = module_of(self.secnode, modulename)
    if mod is None:
        return None
    if exportedname not in mod.accessiblename2attr:
        return None
    pname = mod.accessiblename2attr[exportedname]
    if pname not in mod.parameters:
        return None
    return (mod, pname)


def Entry(p):
    """what the cache holds for a parameter: its error if there is one, else its value"""
    return (p.readerror, None) if p.readerror is not None else (None, p.value)


def Emitted(m, pname, sent0, sent1):
    """exactly one message was handed to the dispatcher, built from the entry the cache holds now"""
    return (len(sent1) == len(sent0) + 1 and is_prefix(sent0, sent1)
            and same_object(nth(last(sent1), 0), m) and nth(last(sent1), 1) == pname
            and same_value(nth(last(sent1), 2), m.parameters[pname].value)
            and same_value(nth(last(sent1), 3), m.parameters[pname].readerror))


CONTRACTS = [
    # ------------------------------------------------------------------ assumed environment
    dict(key='SecNode.get_module', file='frappy/secnode.py', func='SecNode.get_module', serves=[], trusted=True,
         self_type='SecNode', requires=[],
         ensures={'known': 'same_object(result, module_of(self, modulename)) and (result is None or inv(result))'},
         raises={'nosuch': 'issubclass(exc, NoSuchModuleError)', 'unknown': 'module_of(self, modulename) is None'},
         result_type='Module', result_kind='Module|none'),
    # interface contracts of datatypes (verified for every concrete class in contracts/datatypes.py)
    dict(key='iface::DataType.validate', file=None, func=None, signature='self, value, previous=None', serves=[], trusted=True,
         requires=['inv(self)', 'previous is None or InSet(self, previous)'],
         ensures={'sound': 'InSet(self, result)', 'same': 'Den(self, result, value)'},
         raises={'badvalue': 'issubclass(exc, BadValueError)'}),
    dict(key='iface::DataType.__call__', file=None, func=None, signature='self, value', serves=[], trusted=True,
         requires=['inv(self)'],
         ensures={'conv': 'Conv(self, result)', 'same': 'DenConv(self, result, value)'},
         raises={'badvalue': 'issubclass(exc, BadValueError)'}),
    dict(key='iface::DataType.import_value', file=None, func=None, signature='self, value', serves=[], trusted=True,
         requires=['inv(self)', 'is_wire(value)'],
         ensures={'conv': 'ConvW(self, result)', 'same': 'DenWire(self, result, value)'},
         raises={'badvalue': 'issubclass(exc, BadValueError)'}),
    dict(key='iface::DataType.export_value', file=None, func=None, signature='self, value', serves=[], trusted=True,
         requires=['inv(self)'],
         ensures={'kind': 'implies(InSet(self, value), JsonKind(self, result) and Exported(self, value, result))'},
         raises={'badvalue': 'not InSet(self, value)', 'cls': 'issubclass(exc, BadValueError)'}),
    # the generated write wrapper as seen by its callers (verified below as new_wfunc)
    dict(key='dyn::Module.write_', file=None, func=None, signature='self, value', serves=[], trusted=True,
         requires=['pname in self.parameters'],
         ghost_modifies=['driver_calls', 'hook_calls', 'sent'],
         modifies=['value', 'readerror', 'timestamp'], raises_modifies=[], raises_ghost_modifies=['driver_calls', 'hook_calls'],
         ensures={'validated': 'InSet(self.parameters[pname].datatype, self.parameters[pname].value)',
                  'calls': 'WriteCalls(self, pname, value, old(driver_calls), driver_calls, old(hook_calls), hook_calls)'},
         raises={'calls': 'WriteCallsExc(self, pname, value, old(driver_calls), driver_calls, old(hook_calls), hook_calls, exc)'}),
    # the generated read wrapper as seen by its callers
    dict(key='dyn::Module.read_', file=None, func=None, signature='self', serves=[], trusted=True,
         requires=['pname in self.parameters'],
         ghost_modifies=['sent'], modifies=['value', 'readerror', 'timestamp'],
         ensures={'valid': 'InSet(self.parameters[pname].datatype, self.parameters[pname].value)'},
         raises={}),
    dict(key='Command.__get__', file='frappy/params.py', func='Command.__get__', serves=[], trusted=True, self_type='Command',
         requires=['inv(self)'], ensures={}, raises='never',     # commands are properly configured (func is set): assumed
         result_abstract=dict(contract='cmdfunc', bound={'cmd': 'self', 'mod': 'obj'})),
    # a driver's command function: any result, any exception; the call is recorded
    dict(key='cmdfunc', file=None, func=None, packed_args=True, serves=[], trusted=True,
         requires=[], ghost_modifies=['driver_calls', 'sent'], modifies=['value', 'readerror', 'timestamp'],
         ensures={'logged': 'driver_calls == old(driver_calls) + [(mod, cmd.name, args, kwds)]'},
         raises={'logged': 'driver_calls == old(driver_calls) + [(mod, cmd.name, args, kwds)]'}),
    dict(key='Command.do', file='frappy/params.py', func='Command.do', serves=['C04'], self_type='Command',
         params={'module_obj': 'Module'},
         requires=['inv(self)', 'argument is None or is_wire(argument)'], check_frame=False,
         ghost_modifies=['driver_calls', 'sent'], modifies=['value', 'readerror', 'timestamp'],
         ensures={'calls': 'DoCalls(self, module_obj, old(driver_calls), driver_calls)',
                  'once': 'len(driver_calls) == len(old(driver_calls)) + 1',
                  'result': 'self.result is None or Conv(self.result, result)'},
         raises={'calls': 'DoCalls(self, module_obj, old(driver_calls), driver_calls)',
                 'badvalue': 'implies(len(driver_calls) == len(old(driver_calls)), issubclass(exc, BadValueError))'}),
    dict(key='Dispatcher._execute_command', file='frappy/protocol/dispatcher.py', func='Dispatcher._execute_command',
         serves=['C04'], self_type='Dispatcher', params={'modulename': 'str', 'exportedname': 'str'},
         requires=['inv(self)', 'argument is None or is_wire(argument)'],
         modifies=['value', 'readerror', 'timestamp'], check_frame=False,
         result_kind='tuple',
         ensures={'allowed': 'CommandTarget(self, modulename, exportedname) is not None',
                  'pair': 'is_tuple(result) and len(result) == 2',
                  'once': 'AtMostOneMore(old(driver_calls), driver_calls)',
                  'valid': 'implies(len(driver_calls) > len(old(driver_calls)), LastCommandValid(old(CommandTarget(self, modulename, exportedname)), driver_calls))'},
         raises={'once': 'AtMostOneMore(old(driver_calls), driver_calls)',
                 'valid': 'implies(len(driver_calls) > len(old(driver_calls)), LastCommandValid(old(CommandTarget(self, modulename, exportedname)), driver_calls))',
                 'fitting': 'implies(len(driver_calls) == len(old(driver_calls)), Fitting(exc))'}),
    dict(key='Dispatcher._getParameterValue', file='frappy/protocol/dispatcher.py', func='Dispatcher._getParameterValue',
         serves=['C04', 'C06'], self_type='Dispatcher', params={'modulename': 'str', 'exportedname': 'str'},
         requires=['inv(self)'],
         modifies=['value', 'readerror', 'timestamp'], check_frame=False,
         result_kind='tuple',
         ensures={'described': 'ReadTarget(self, modulename, exportedname) is not None',
                  'pair': 'is_tuple(result) and len(result) == 2 and is_dict(result[1])',
                  'nowrite': 'len(driver_calls) == len(old(driver_calls))'},
         raises={'nowrite': 'len(driver_calls) == len(old(driver_calls))',
                 'fitting': 'implies(ReadTarget(self, modulename, exportedname) is None, Fitting(exc))'}),
    # ================================================================== C05: the update funnel
    # the dispatcher callback: hands (module, parameter) to the connections; records what the entry held at that moment.
    # Lock discipline: it must be called while the module's updateLock is held (store + notify atomic)
    dict(key='updateCallback', file=None, func=None, packed_args=True, serves=[], trusted=True,
         requires=["held(nth(args, 0, 'Module').updateLock)"], ghost_modifies=['sent'],
         ensures={'logged': "sent == old(sent) + [(nth(args, 0), nth(args, 1, 'Parameter').name, nth(args, 1, 'Parameter').value, nth(args, 1, 'Parameter').readerror)]"},
         raises='never'),
    # parameter callbacks (paramCallbacks): assumed not to touch this module's cache nor to emit messages themselves
    dict(key='paramcallback', file=None, func=None, packed_args=True, serves=[], trusted=True,
         requires=[], ensures={}, raises={}),
    dict(key='Module.announceUpdate', file='frappy/modulebase.py', func='Module.announceUpdate', serves=['C05'],
         self_type='Module', params={'pname': 'str', 'timestamp': 'float|none', 'validate': 'bool', 'err': 'Exception|none'},
         requires=['inv(self)', 'pname in self.parameters',
                   'timestamp is None or timestamp >= 0',
                   'implies(err is None and not validate, Conv(self.parameters[pname].datatype, value))',
                   'pname in self.paramCallbacks'],
         modifies=['value', 'readerror', 'timestamp', 'report_error'], check_frame=False,
         ensures={'emit_or_silent': 'Emitted(self, pname, old(sent), sent) or (len(sent) == len(old(sent))'
                                    ' and same_value(self.parameters[pname].readerror, old(self.parameters[pname].readerror))'
                                    ' and py_eq(self.parameters[pname].value, old(self.parameters[pname].value)))',
                  'recovery': 'implies(old(self.parameters[pname].readerror) is not None and self.parameters[pname].readerror is None,'
                              ' Emitted(self, pname, old(sent), sent))',
                  'change': 'implies(self.parameters[pname].readerror is None and old(self.parameters[pname].readerror) is None'
                            ' and not py_eq(self.parameters[pname].value, old(self.parameters[pname].value)),'
                            ' Emitted(self, pname, old(sent), sent))',
                  'stored': 'implies(err is None and not validate, same_value(self.parameters[pname].value, value)'
                            ' and self.parameters[pname].readerror is None)',
                  'unlocked': 'not held(self.updateLock) or old(held(self.updateLock))'},
         raises='never'),
    # ================================================================== C04: request routing
    dict(key='Dispatcher._setParameterValue', file='frappy/protocol/dispatcher.py', func='Dispatcher._setParameterValue',
         serves=['C04'], self_type='Dispatcher', params={'modulename': 'str', 'exportedname': 'str'},
         requires=['inv(self)', 'is_wire(value)'],
         modifies=['value', 'readerror', 'timestamp'], check_frame=False,
         result_kind='tuple',
         ensures={'allowed': 'ChangeAllowed(self, modulename, exportedname)',
                  'pair': 'is_tuple(result) and len(result) == 2',
                  'once': 'AtMostOneMore(old(driver_calls), driver_calls)',
                  'valid': 'implies(len(driver_calls) > len(old(driver_calls)), LastCallValid(old(ChangeTarget(self, modulename, exportedname)), driver_calls))'},
         raises={'once': 'AtMostOneMore(old(driver_calls), driver_calls)',
                 'valid': 'implies(len(driver_calls) > len(old(driver_calls)), LastCallValid(old(ChangeTarget(self, modulename, exportedname)), driver_calls))',
                 'only_if_allowed': 'implies(len(hook_calls) > len(old(hook_calls)), ChangeAllowed(self, modulename, exportedname))',
                 'fitting': 'implies(len(driver_calls) == len(old(driver_calls)) and len(hook_calls) == len(old(hook_calls)), Fitting(exc))',
                 'cache': "unchanged('value') and unchanged('readerror') and unchanged('timestamp')",
                 'silent': 'len(sent) == len(old(sent))'}),
    dict(key='Dispatcher.handle_change', file='frappy/protocol/dispatcher.py', func='Dispatcher.handle_change',
         serves=['C04'], self_type='Dispatcher', params={'specifier': 'str|none'},
         requires=['inv(self)', 'is_wire(data)'], modifies=['value', 'readerror', 'timestamp'], check_frame=False,
         ensures={'reply': "result[0] == 'changed' and result[1] == specifier",
                  'allowed': "ChangeAllowed(self, SplitSpec(specifier, 'target')[0], SplitSpec(specifier, 'target')[1])",
                  'once': 'AtMostOneMore(old(driver_calls), driver_calls)'},
         raises={'once': 'AtMostOneMore(old(driver_calls), driver_calls)',
                 'fitting': 'implies(len(driver_calls) == len(old(driver_calls)) and len(hook_calls) == len(old(hook_calls)), Fitting(exc))',
                 'cache': "unchanged('value') and unchanged('readerror') and unchanged('timestamp')"}),
    dict(key='Dispatcher.handle_do', file='frappy/protocol/dispatcher.py', func='Dispatcher.handle_do',
         serves=['C04'], self_type='Dispatcher', params={'specifier': 'str|none'},
         requires=['inv(self)', 'data is None or is_wire(data)'], modifies=['value', 'readerror', 'timestamp'], check_frame=False,
         ensures={'reply': "result[0] == 'done' and result[1] == specifier",
                  'once': 'AtMostOneMore(old(driver_calls), driver_calls)'},
         raises={'once': 'AtMostOneMore(old(driver_calls), driver_calls)',
                 'fitting': 'implies(len(driver_calls) == len(old(driver_calls)), Fitting(exc))'}),
    dict(key='Dispatcher.handle_read', file='frappy/protocol/dispatcher.py', func='Dispatcher.handle_read',
         serves=['C04', 'C06'], self_type='Dispatcher', params={'specifier': 'str|none'},
         requires=['inv(self)'], modifies=['value', 'readerror', 'timestamp'], check_frame=False,
         ensures={'reply': "result[0] == 'reply' and result[1] == specifier and is_list(result[2]) and len(result[2]) == 2",
                  'nowrite': 'len(driver_calls) == len(old(driver_calls))'},
         raises={'nowrite': 'len(driver_calls) == len(old(driver_calls))'}),
]

LOOPS = {
    # announceUpdate: for cbfunc, cbargs in self.paramCallbacks[pname]: try: cbfunc(*cbargs, *value_err) except Exception: pass
    'Module.announceUpdate#0': dict(header='self.paramCallbacks[pname]', invariant={'silent': 'sent == old(sent)'}),
}

register(globals())
