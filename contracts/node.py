"""Sidecar contracts for the node side: dispatcher, module base (wrappers, announceUpdate), params.

Ghost state (added by contracts only):
  driver_calls : list of (module, parameter-or-command name, value) - every invocation of a driver write
                 method / command function (C04)
  hook_calls   : list of (module, name, value) - invocations of check_<p> hooks (C04)
  sent         : list of (module, parameter name, value-or-error) - update messages handed to the
                 dispatcher callback (C05)
"""
from pyvc.native import *      # noqa: F401,F403

CONTEXT_FILE = 'frappy/protocol/dispatcher.py'
SOURCES = ['frappy/datatypes.py', 'frappy/properties.py', 'frappy/lib/enum.py', 'frappy/errors.py',
           'frappy/params.py', 'frappy/modulebase.py', 'frappy/protocol/dispatcher.py', 'frappy/secnode.py']
DISPATCHED = ['InSet', 'Den', 'Conv', 'DenWire', 'DenConv', 'JsonKind', 'Exported', 'ConvW', 'Accepts']
DISPATCH_FALLBACK = {'DenWire': 'DenConv', 'Conv': 'InSet', 'DenConv': 'Den', 'ConvW': 'Conv'}
INLINE = ['Parameter.export_value']
GHOSTS = ['driver_calls', 'hook_calls', 'sent']
DYN_TYPES = {'Module': [('write_', 'dyn::Module.write_', 'pname'), ('read_', 'dyn::Module.read_', 'pname')]}

ASSUMPTIONS = [
    'A3 logging never raises',
    'A6 no BaseException other than Exception subclasses',
    'A7 termination is not proved',
    'module shape is abstract: parameters / commands / accessiblename2attr are symbolic finite maps satisfying the'
    ' representation invariant ModInv (established by Module.__init__/_add_accessible, C06/C10)',
    'generated module classes (metaclass machinery of HasAccessibles.__init_subclass__) are abstracted: the wrapper closures'
    ' new_rfunc/new_wfunc are verified with symbolic closure variables (pname, rfunc/wfunc, check_funcs)',
    'driver methods (write_<p>, read_<p>, command functions, check_<p> hooks) are abstract callees: they may return any'
    ' value or raise any Exception; each call is recorded in a ghost log',
    'the cached value of a parameter lies in the value set of its datatype (needed as `previous` of validate);'
    ' driver-provided out-of-range values are outside the stated domain',
]

CLASSES = {
    'DataType': dict(abstract=True, fields={}),
    'Accessible': dict(fields={'export': 'any', 'name': 'str'}),
    'Parameter': dict(fields={'datatype': 'DataType', 'value': 'any', 'readerror': 'any', 'timestamp': 'any',
                              'constant': 'any', 'readonly': 'bool', 'export': 'any', 'name': 'str',
                              'omit_unchanged_within': 'number', 'default': 'any', 'given': 'bool'},
                      inv=['inv(self.datatype)', 'self.value is None or InSet(self.datatype, self.value)',
                           'is_str(self.export) or self.export is False',
                           'self.timestamp is None or is_number(self.timestamp)']),
    'Command': dict(fields={'argument': 'DataType|none', 'result': 'DataType|none', 'export': 'any', 'name': 'str',
                            'func': 'callable:cmdfunc'},
                    inv=['self.argument is None or inv(self.argument)', 'self.result is None or inv(self.result)']),
    'Module': dict(fields={'name': 'str', 'parameters': 'dict:Parameter', 'commands': 'dict:Command',
                           'accessiblename2attr': 'dict:str', 'export': 'any', 'accessLock': 'rlock', 'updateLock': 'rlock',
                           'paramCallbacks': 'dict', 'updateCallback': 'callable:updateCallback', 'log': 'any'},
                   elem_inv={'accessiblename2attr': 'WireOk(self, k, v)', 'parameters': 'ParamOk(self, k, v)',
                             'commands': 'CommandOk(self, k, v)'}),
    'SecNode': dict(fields={'modules': 'dict:Module', 'export': 'list:str'}, elem_inv={'modules': 'ModuleOk(self, k, v)'}),
    'Dispatcher': dict(fields={'secnode': 'SecNode', 'log': 'any'}, inv=['inv(self.secnode)']),
}


def WireOk(m, k, v):
    """wire names map to (names of) exported parameters or commands"""
    return is_str(v) and (v in m.parameters or v in m.commands)


def ParamOk(m, k, v):
    return (inv(v) and v.name == k and not (k in m.commands)
            # the generated wrappers exist: read_<p> always, write_<p> unless the parameter is read-only
            and has_dyn(m, 'read_' + k) and (v.readonly or has_dyn(m, 'write_' + k)))


def CommandOk(m, k, v):
    return inv(v) and v.name == k


def ModuleOk(sn, k, v):
    return inv(v) and v.name == k


def AtMostOneMore(old_log, new_log):
    return is_prefix(old_log, new_log) and len(new_log) <= len(old_log) + 1


def ValidWriteCall(m, pname, offered, call):
    """the recorded driver call carries a member of the parameter's value set that denotes the offered value"""
    return (same_object(call[0], m) and call[1] == pname
            and InSet(m.parameters[pname].datatype, call[2]) and Den(m.parameters[pname].datatype, call[2], offered))


def WriteCalls(m, pname, value, dc0, dc1, hc0, hc1):
    return (AtMostOneMore(dc0, dc1) and is_prefix(hc0, hc1)
            and implies(len(dc1) > len(dc0), ValidWriteCall(m, pname, value, dc1[-1])))


def WriteCallsExc(m, pname, value, dc0, dc1, hc0, hc1, exc):
    return (WriteCalls(m, pname, value, dc0, dc1, hc0, hc1)
            and implies(len(dc1) == len(dc0) and len(hc1) == len(hc0), issubclass(exc, BadValueError)))


def Fitting(exc):
    """error classes that tell the client what was wrong with the request"""
    return (issubclass(exc, NoSuchModuleError) or issubclass(exc, NoSuchParameterError) or issubclass(exc, NoSuchCommandError)
            or issubclass(exc, ReadOnlyError) or issubclass(exc, BadValueError) or issubclass(exc, ProtocolError))


def DenWireOf(self, modulename, exportedname, value):
    return value


def ChangeAllowed(self, modulename, exportedname):
    """module and parameter exist under these wire names and the parameter may be changed"""
    m = self.secnode.modules
    return (modulename in m and exportedname in m[modulename].accessiblename2attr
            and m[modulename].accessiblename2attr[exportedname] in m[modulename].parameters
            and m[modulename].parameters[m[modulename].accessiblename2attr[exportedname]].constant is None
            and not m[modulename].parameters[m[modulename].accessiblename2attr[exportedname]].readonly)


CONTRACTS = [
    # ------------------------------------------------------------------ assumed environment
    dict(key='SecNode.get_module', file='frappy/secnode.py', func='SecNode.get_module', serves=[], trusted=True,
         self_type='SecNode', requires=[],
         ensures={'known': 'result is None or (is_str(modulename) and modulename in self.modules'
                           ' and same_object(result, self.modules[modulename]) and inv(result))'},
         raises={'nosuch': 'issubclass(exc, NoSuchModuleError)',
                 'unknown': 'not (is_str(modulename) and modulename in self.modules)'},
         result_type='Module', result_kind='Module|none'),
    # interface contracts of datatypes (verified for every concrete class in contracts/datatypes.py)
    dict(key='iface::DataType.validate', file=None, func=None, signature='self, value, previous=None', serves=[], trusted=True,
         requires=['inv(self)', 'previous is None or InSet(self, previous)'],
         ensures={'sound': 'InSet(self, result)', 'same': 'Den(self, result, value)'},
         raises={'badvalue': 'issubclass(exc, BadValueError)'}),
    dict(key='iface::DataType.__call__', file=None, func=None, signature='self, value', serves=[], trusted=True,
         requires=['inv(self)'],
         ensures={'conv': 'Conv(self, result)', 'same': 'DenConv(self, result, value)'},
         raises={'badvalue': 'issubclass(exc, BadValueError)'}),
    dict(key='iface::DataType.import_value', file=None, func=None, signature='self, value', serves=[], trusted=True,
         requires=['inv(self)', 'is_wire(value)'],
         ensures={'conv': 'ConvW(self, result)', 'same': 'DenWire(self, result, value)'},
         raises={'badvalue': 'issubclass(exc, BadValueError)'}),
    dict(key='iface::DataType.export_value', file=None, func=None, signature='self, value', serves=[], trusted=True,
         requires=['inv(self)', 'InSet(self, value)'],
         ensures={'kind': 'JsonKind(self, result)', 'form': 'Exported(self, value, result)'}, raises='never'),
    # the generated write wrapper as seen by its callers (verified below as new_wfunc)
    dict(key='dyn::Module.write_', file=None, func=None, signature='self, value', serves=[], trusted=True,
         bound_params=['pname'],
         requires=['inv(self)', 'pname in self.parameters'],
         ghost_modifies=['driver_calls', 'hook_calls', 'sent'],
         modifies=['value', 'readerror', 'timestamp'], raises_modifies=[],
         ensures={'validated': 'InSet(self.parameters[pname].datatype, self.parameters[pname].value)',
                  'calls': 'WriteCalls(self, pname, value, old(driver_calls), driver_calls, old(hook_calls), hook_calls)',
                  'inv': 'inv(self)'},
         raises={'calls': 'WriteCallsExc(self, pname, value, old(driver_calls), driver_calls, old(hook_calls), hook_calls, exc)',
                 'inv': 'inv(self)'}),
    # ================================================================== C04: request routing
    dict(key='Dispatcher._setParameterValue', file='frappy/protocol/dispatcher.py', func='Dispatcher._setParameterValue',
         serves=['C04'], self_type='Dispatcher', params={'modulename': 'str', 'exportedname': 'str'},
         requires=['inv(self)', 'is_wire(value)'],
         modifies=['value', 'readerror', 'timestamp'], check_frame=False,
         ensures={'allowed': 'ChangeAllowed(self, modulename, exportedname)',
                  'once': 'AtMostOneMore(old(driver_calls), driver_calls)',
                  'valid': 'implies(len(driver_calls) > len(old(driver_calls)), ValidWriteCall(self.secnode.modules[modulename],'
                           ' self.secnode.modules[modulename].accessiblename2attr[exportedname], DenWireOf(self, modulename, exportedname, value), driver_calls[-1]))'},
         raises={'once': 'AtMostOneMore(old(driver_calls), driver_calls)',
                 'only_if_allowed': 'implies(len(driver_calls) > len(old(driver_calls)) or len(hook_calls) > len(old(hook_calls)),'
                                    ' ChangeAllowed(self, modulename, exportedname))',
                 'fitting': 'implies(len(driver_calls) == len(old(driver_calls)) and len(hook_calls) == len(old(hook_calls)), Fitting(exc))',
                 'cache': "unchanged('value') and unchanged('readerror') and unchanged('timestamp')",
                 'silent': 'len(sent) == len(old(sent))'}),
]

LOOPS = {}

register(globals())
