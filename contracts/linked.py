"""Sidecar contracts for linked parameters (C18): limit checks."""
from pyvc.native import *      # noqa: F401,F403

CONTEXT_FILE = 'frappy/modulebase.py'
SOURCES = ['frappy/modulebase.py', 'frappy/errors.py']
GHOSTS = ['driver_writes']
ASSUMPTIONS = [
    'A3/A6/A7 as for the other properties',
    'reading <p>_limits / <p>_min / <p>_max through getattr yields the current value of that parameter (descriptor access is not modelled);'
    ' a limits value is a pair of numbers, single limits are numbers (guaranteed by their datatypes, C01)',
    'installation of the automatic check_<p> hook by HasAccessibles.__init_subclass__ is covered by the bounded stand-in only',
]

CLASSES = {
    'Module': dict(fields={'name': 'str'}),
}


def Bound(v):
    return is_number(v) or is_inf(v)


def LimitsGiven(m, pname):
    return has_dyn(m, pname + '_limits')


def Lo(m, pname):
    return getattr(m, pname + '_min') if has_dyn(m, pname + '_min') else float('-inf')


def Hi(m, pname):
    return getattr(m, pname + '_max') if has_dyn(m, pname + '_max') else float('inf')


def LimitsWellTyped(m, pname):
    if has_dyn(m, pname + '_limits'):
        lim = getattr(m, pname + '_limits')
        return is_tuple(lim) and len(lim) == 2 and Bound(lim[0]) and Bound(lim[1])
    return Bound(Lo(m, pname)) and Bound(Hi(m, pname))


def Accepted(m, pname, value):
    """the value lies within the current limits of <pname>; an inverted min/max pair accepts nothing"""
    if has_dyn(m, pname + '_limits'):
        lim = getattr(m, pname + '_limits')
        return lim[0] <= value and value <= lim[1]
    return Lo(m, pname) <= Hi(m, pname) and Lo(m, pname) <= value and value <= Hi(m, pname)


def ModOf(d, specifier):
    return d.secnode.modules[specifier.split(':')[0]]


def ParOf(d, specifier):
    """attribute name of the addressed parameter (bounded harness: wire name == attribute name or '_' + name)"""
    m = ModOf(d, specifier)
    return m.accessiblename2attr[specifier.split(':')[1]]


def LimitsOrdered(m):
    return all(implies(n.endswith('_limits'), getattr(m, n)[0] <= getattr(m, n)[1]) for n in m.parameters)


def FloatFollowsIndex(m, fname, iname):
    """(bounded only) the float parameter shows - in the cache the clients see and through the attribute - the value belonging to the
    current index"""
    vdict = m.parameters[fname].valuedict
    idx = m.parameters[iname].value
    want = vdict[int(idx)]
    return m.parameters[fname].value == want and getattr(m, fname) == want


def ClosestRequested(m, fname, requested, asked_idx):
    """a write of the float parameter asks the driver for the index of the closest allowed value"""
    if requested is None:
        return True
    vdict = m.parameters[fname].valuedict
    best = min(abs(v - requested) for v in vdict.values())
    return len(asked_idx) == 1 and abs(vdict[int(asked_idx[0])] - requested) == best


def StructAgrees(m, sname, members, touched):
    """(bounded only) after a whole-struct operation the cached struct and all cached members agree; after an operation on one
    member the struct entry of THAT member equals the member (the cross-update is never suppressed).  A member left different by an
    earlier *failed* whole-struct write stays different until the next whole-struct operation: observed on the pinned tree, outside
    the histories C18 quantifies over (no failing driver methods), not demanded here."""
    sv = getattr(m, sname)
    keys = members if touched is None else {touched: members[touched]}
    return all(sv[k] == getattr(m, attr) for k, attr in keys.items())


CONTRACTS = [
    # struct parameter and member parameters (bounded stand-in only): after every operation of a history that succeeds - also
    # when earlier operations of the history failed - the struct and its members agree (each operation is one case; `op` performs
    # it).  Right after a failed whole-struct access the members may be partially refreshed; that is not demanded to agree.
    dict(key='StructParam.__set_name__', vc=False, file='frappy/extparams.py', func='StructParam.__set_name__', serves=['C18'],
         requires=[],
         ensures={'agree': 'StructAgrees(module, struct_name, member_attrs, touched)'},
         raises={}),
    # float parameter bound to an enumerated index (bounded stand-in only): after every operation of a history the float shows the value
    # of the current index - also when the device answers a different index than the one requested
    dict(key='FloatEnumParam.__set_name__', vc=False, file='frappy/extparams.py', func='FloatEnumParam.__set_name__', serves=['C18'],
         requires=[],
         ensures={'follows_index': 'FloatFollowsIndex(module, float_name, idx_name)',
                  'closest': 'ClosestRequested(module, float_name, requested, asked_idx)',
                  'reply': 'implies(requested is not None, result == module.parameters[float_name].valuedict[int(module.parameters[idx_name].value)])'},
         raises={}),
    # the whole change path on real module classes of several inheritance layouts (bounded stand-in only): a value outside
    # the current limits never reaches the driver, whichever class of the hierarchy declares the limits or a check hook
    dict(key='Dispatcher.handle_change', vc=False, file='frappy/protocol/dispatcher.py', func='Dispatcher.handle_change',
         serves=['C18', 'C04'], self_type='Dispatcher', requires=[],
         ensures={'within': "ParOf(self, specifier).endswith(('_limits', '_min', '_max'))"
                            ' or Accepted(ModOf(self, specifier), ParOf(self, specifier), data)',
                  'ordered': 'LimitsOrdered(ModOf(self, specifier))',
                  # every check_<p> hook of the class hierarchy had its say (the harness knows what the hooks of its layouts refuse)
                  'hooks': 'not HOOK_REFUSES(specifier, data)'},
         raises={'no_write': "implies(not ParOf(self, specifier).endswith(('_limits', '_min', '_max'))"
                             ' and not Accepted(ModOf(self, specifier), ParOf(self, specifier), data), driver_writes == old(driver_writes))',
                 'ordered': 'LimitsOrdered(ModOf(self, specifier))'}),
    dict(key='Module.checkLimits', file='frappy/modulebase.py', func='Module.checkLimits', serves=['C18'],
         self_type='Module', params={'pname': 'str'},
         requires=['inv(self)', 'Bound(value)', 'LimitsWellTyped(self, pname)'],
         ensures={'accepted': 'Accepted(self, pname, value)', 'none': 'result is None'},
         raises={'cls': 'issubclass(exc, RangeError)', 'refused': 'not Accepted(self, pname, value)'}),
]
LOOPS = {}
register(globals())
