"""Sidecar contracts for the client callback dispatch (C12) - bounded stand-in only."""
from pyvc.native import *      # noqa: F401,F403

CONTEXT_FILE = 'frappy/client/__init__.py'
SOURCES = ['frappy/client/__init__.py', 'frappy/errors.py']
GHOSTS = ['cb_calls']
ASSUMPTIONS = [
    'no deductive contract: the verifier models containers by value, so iterating a list that is mutated during the iteration'
    ' (the failure mode at stake) is not distinguishable from iterating a snapshot; the contract below is evaluated natively',
    'the end-to-end part of C12 (cache mirrors the node over a connection: reader thread, reconnects) is outside any sequential contract',
]
CLASSES = {}


def EachOnce(registered, new):
    """every callback registered when dispatch started is called exactly once, in registration order"""
    return [e for e in new] == list(registered)


CONTRACTS = [
    dict(key='ProxyClient.callback', vc=False, file='frappy/client/__init__.py', func='ProxyClient.callback', serves=['C12'],
         self_type='ProxyClient', requires=[],
         ensures={'each_once': 'EachOnce(registered_before, cb_calls[len(old(cb_calls)):])',
                  'unregistered_gone': 'all(f not in self.callbacks[cbname].get(key, []) for f in one_shot)',
                  'others_kept': 'all(f in self.callbacks[cbname].get(key, []) for f in registered_before if f not in one_shot and f not in removes_other)',
                  'result': 'result == bool(self.callbacks[cbname].get(key, []))'},
         raises='never'),
]
LOOPS = {}
register(globals())
