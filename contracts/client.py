"""Sidecar contracts for the client cache and callback dispatch (C12)."""
from pyvc.native import *      # noqa: F401,F403

CONTEXT_FILE = 'frappy/client/__init__.py'
SOURCES = ['frappy/client/__init__.py', 'frappy/errors.py']
GHOSTS = ['cb_calls']
INLINE = ['ProxyClient.updateValue']
UFS = {'IMPORTED': (['val', 'val'], 'val', None)}
ASSUMPTIONS = [
    'A3/A6/A7 as for the other properties',
    'SecopClient.updateValue is proved with ProxyClient.callback abstract (it records (key, callback name, arguments) in the ghost log'
    ' cb_calls and does not raise) and CacheItem(...) abstract (an entry object with value / timestamp / readerror / datatype)',
    'for ProxyClient.callback itself there is no deductive contract: the verifier models containers by value, so iterating a list that is mutated during the iteration'
    ' (the failure mode at stake) is not distinguishable from iterating a snapshot; the contract below is evaluated natively',
    'the end-to-end part of C12 (cache mirrors the node over a connection: reader thread, reconnects) is outside any sequential contract',
]
CLASSES = {
    'DataType': dict(abstract=True, fields={}),
    'Exception': dict(fields={}, bases=[]),
    'CacheItem': dict(fields={'value': 'any', 'timestamp': 'any', 'readerror': 'any', 'datatype': 'any'}),
    'ProxyClient': dict(fields={'callbacks': 'dict', 'log': 'any'}),
    'SecopClient': dict(bases=['ProxyClient'], fields={'modules': 'dict:dict:dict:dict:DataType', 'cache': 'dict[pair]:CacheItem', 'callbacks': 'dict', 'log': 'any'}),
}


def DatatypeOf(c, module, param):
    return c.modules[module]['parameters'][param]['datatype']


def Known(c, module, param):
    return module in c.modules and 'parameters' in c.modules[module] and param in c.modules[module]['parameters'] \
        and 'datatype' in c.modules[module]['parameters'][param]


def SixCalls(new, module, param, entry, value, timestamp, readerror):
    """every level (node, module, parameter) is called back exactly once per message and per callback kind, in this order,
    with the cache entry resp. the imported value"""
    return (len(new) == 6
            and nth(new[0], 0) is None and nth(new[0], 1) == 'updateItem' and same_object(nth(nth(new[0], 2, 'tuple'), 4), entry)
            and nth(new[1], 0) == module and nth(new[1], 1) == 'updateItem' and same_object(nth(nth(new[1], 2, 'tuple'), 4), entry)
            and nth(new[2], 0) == (module, param) and nth(new[2], 1) == 'updateItem' and same_object(nth(nth(new[2], 2, 'tuple'), 4), entry)
            and nth(new[3], 0) is None and nth(new[3], 1) == 'updateEvent' and same_value(nth(nth(new[3], 2, 'tuple'), 4), value)
            and nth(new[4], 0) == module and nth(new[4], 1) == 'updateEvent' and same_value(nth(nth(new[4], 2, 'tuple'), 4), value)
            and nth(new[5], 0) == (module, param) and nth(new[5], 1) == 'updateEvent' and same_value(nth(nth(new[5], 2, 'tuple'), 4), value))


def EachOnce(registered, new):
    """every callback registered when dispatch started is called exactly once, in registration order"""
    return [e for e in new] == list(registered)


# ---- the receive loop on a scripted connection (bounded stand-in only): the cache mirrors the last message per parameter
def now():
    import time
    return time.time()


def RxExpected(client, script, known, t0, t1):
    """the oracle taken from C12: per parameter the import of the last update / error update / read reply / change reply / read error
    (module-only specifiers stand for :value resp. :target); a message whose value cannot be imported changes nothing.
    Returns {key: (value, timestamp or None when the message had none, error class name or None)} and the applied sequence."""
    state, applied = {}, []
    for action, ident, data in script:
        if action not in ('update', 'reply', 'changed', 'error_update', 'error_read'):
            continue
        key = known.get(ident)
        if key is None and ':' not in (ident or ''):
            key = known.get(f"{ident}:{'target' if action == 'changed' else 'value'}")
        if key is None:
            continue
        dt = client.modules[key[0]]['parameters'][key[1]]['datatype']
        if action.startswith('error_'):
            entry = (None, data[2].get('t'), data[0])
        else:
            try:
                entry = (dt.import_value(data[0]), data[1].get('t'), None)
            except Exception:
                continue
        state[key] = entry
        applied.append((key, entry))
    return state, applied


def EntryMatches(item, entry, t0, t1):
    value, t, errname = entry
    if errname is None:
        if item.readerror is not None or not (item.value == value and type(item.value) is type(value)):
            return False
    elif item.readerror is None or type(item.readerror).__name__ != errname + 'Error' and type(item.readerror).name != errname:
        return False
    if t is None or t > t1:
        return t0 <= item.timestamp <= t1          # the time of arrival stands in; never in the future
    return item.timestamp == t if t <= t0 else item.timestamp <= t1


def RxMirror(client, cache, script, known, t0, t1):
    state, _ = RxExpected(client, script, known, t0, t1)
    return set(cache) == set(state) and all(EntryMatches(cache[k], e, t0, t1) for k, e in state.items())


def RxNoFuture(cache, t1):
    return all(item.timestamp <= t1 for item in cache.values())


def RxCallbacks(client, calls, script, known, t0, t1):
    """the node-level updateItem callback saw every applied message exactly once, in arrival order"""
    _, applied = RxExpected(client, script, known, t0, t1)
    return len(calls) == len(applied) and all(c[0] == k and EntryMatches(c[1], e, t0, t1) for c, (k, e) in zip(calls, applied))


CONTRACTS = [
    dict(key='iface::DataType.import_value', file=None, func=None, signature='self, value', serves=[], trusted=True, requires=[],
         ensures={'imported': 'same_value(result, IMPORTED(self, value))'}, raises={}),
    dict(key='new::CacheItem', file=None, func=None, signature='value, timestamp=None, readerror=None, datatype=None', serves=[],
         trusted=True, requires=[],
         ensures={'fields': 'same_value(result.value, value) and same_value(result.timestamp, timestamp)'
                            ' and same_value(result.readerror, readerror) and same_value(result.datatype, datatype)'},
         raises='never', result_type='CacheItem', result_fresh=True),
    dict(key='ProxyClient.callback[abstract]', file=None, func=None, packed_args=True, serves=[], trusted=True, requires=[],
         ghost_modifies=['cb_calls'], ensures={'logged': 'cb_calls == old(cb_calls) + [(nth(args, 0), nth(args, 1), args)]'},
         raises='never'),
    dict(key='SecopClient.callback', file=None, func=None, packed_args=True, serves=[], trusted=True, requires=[],
         ghost_modifies=['cb_calls'], ensures={'logged': 'cb_calls == old(cb_calls) + [(nth(args, 0), nth(args, 1), args)]'},
         raises='never'),
    dict(key='SecopClient.updateValue', file='frappy/client/__init__.py', func='SecopClient.updateValue', serves=['C12'],
         self_type='SecopClient', params={'module': 'str', 'param': 'str'},
         requires=['inv(self)', 'Known(self, module, param)', 'readerror is None or is_instance_of(readerror, Exception)'],
         modifies=['cache'], ghost_modifies=['cb_calls'], check_frame=False,
         ensures={'cached': '(module, param) in self.cache',
                  'entry_value': 'implies(readerror is None, same_value(self.cache[(module, param)].value,'
                                 ' IMPORTED(DatatypeOf(self, module, param), value)))',
                  'entry_error': 'implies(readerror is not None, same_value(self.cache[(module, param)].value, value)'
                                 ' and same_object(self.cache[(module, param)].readerror, readerror))',
                  'entry_time': 'same_value(self.cache[(module, param)].timestamp, timestamp)',
                  'others_kept': 'dict_same_except(self.cache, old(self.cache), (module, param))',
                  'callbacks': 'SixCalls(cb_calls[len(old(cb_calls)):], module, param, self.cache[(module, param)],'
                               ' self.cache[(module, param)].value, timestamp, readerror)'},
         raises={'import_failed': 'readerror is None', 'cache_untouched': "unchanged('cache')", 'no_callback': 'cb_calls == old(cb_calls)'}),
    # registration (bounded stand-in only): every given callback is called back at once with the cached state and stays registered,
    # unless IT raised UnregisterCallback on that immediate call - independently of the other callbacks of the same call
    dict(key='ProxyClient.register_callback', vc=False, file='frappy/client/__init__.py', func='ProxyClient.register_callback',
         serves=['C12'], self_type='ProxyClient', requires=[],
         ensures={'registered': 'all((f in self.callbacks[n].get(key, [])) == (not one_shot) for n, f, one_shot in given)',
                  'immediate': 'all(len([1 for c in cb_calls if c[0] is f]) == expect_calls[n] for n, f, one_shot in given)'},
         raises='never'),
    dict(key='ProxyClient.callback', vc=False, file='frappy/client/__init__.py', func='ProxyClient.callback', serves=['C12'],
         self_type='ProxyClient', requires=[],
         ensures={'each_once': 'EachOnce(registered_before, cb_calls[len(old(cb_calls)):])',
                  'unregistered_gone': 'all(f not in self.callbacks[cbname].get(key, []) for f in one_shot)',
                  'others_kept': 'all(f in self.callbacks[cbname].get(key, []) for f in registered_before if f not in one_shot and f not in removes_other)',
                  'result': 'result == bool(self.callbacks[cbname].get(key, []))'},
         raises='never'),
    # the reader thread's body on a scripted connection: every message of the script is taken, the loop ends with the connection
    dict(key='SecopClient.__rxthread', vc=False, file='frappy/client/__init__.py', func='SecopClient.__rxthread', serves=['C12'],
         self_type='SecopClient', requires=[],
         ensures={'mirror': 'RxMirror(self, cache_view, script, known, t_start, now())',
                  'never_in_future': 'RxNoFuture(cache_view, now())',
                  'callbacks_in_order': 'RxCallbacks(self, item_calls, script, known, t_start, now())'},
         raises='never'),
]
LOOPS = {}
register(globals())
