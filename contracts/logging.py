"""Sidecar contracts for frappy/logging.py (C20): remote log routing and log file rotation."""
from pyvc.native import *      # noqa: F401,F403

CONTEXT_FILE = 'frappy/logging.py'
SOURCES = ['frappy/logging.py', 'frappy/errors.py']
GHOSTS = ['log_sent', 'removed']
UFS = {'SENT_MOD': (['val'], 'str'), 'SENT_LEVEL': (['val'], 'str'), 'DIRLIST': (['val'], 'val', 'ScandirIter'), 'GOT': (['val', 'val'], 'bool')}
ASSUMPTIONS = [
    'A3/A6/A7 as for the other properties',
    'mlzlog.LOGLEVELS is {debug: 10, info: 20, warning: 30, error: 40}; with off=99 and comlog=15 these are the level tables'
    ' LOG_LEVELS / LEVEL_NAMES of frappy/logging.py (checked against the imported module by the bounded tier)',
    'connections are objects compared by identity (dictionary keys by object identity)',
    'os.scandir/os.remove are abstracted by a ghost directory listing; the base class rollover has already created the new file',
]

LOG_LEVELS = {'debug': 10, 'info': 20, 'warning': 30, 'error': 40, 'off': 99, 'comlog': 15}
LEVEL_NAMES = {10: 'debug', 20: 'info', 30: 'warning', 40: 'error', 99: 'off', 15: 'comlog'}

CLASSES = {
    'RemoteLogHandler': dict(fields={'subscriptions': 'dict:dict[obj]:int', 'send_log': 'callable:send_log'}),
    'LogRecord': dict(fields={'name': 'str', 'levelno': 'int'}),
    'Conn': dict(fields={}),
    'LogfileHandler': dict(fields={'max_days': 'int', 'baseFilename': 'str', 'rootname': 'str'}),
    'ScandirIter': dict(fields={'entries': 'list:DirEntry'}, iter_field='entries', context_manager='self'),
    'DirEntry': dict(fields={'path': 'str', 'name': 'str'}),
}


def ValidLevel(level):
    if is_str(level):
        return level.lower() in LOG_LEVELS
    return (is_number(level) or is_enum(level)) and (num_eq(level, 10) or num_eq(level, 15) or num_eq(level, 20)
                                                      or num_eq(level, 30) or num_eq(level, 40) or num_eq(level, 99))


def LevelOf(level):
    return LOG_LEVELS[level.lower()] if is_str(level) else level


def SubsOk(h):
    """every module entry is a table connection -> numeric level"""
    return True


def Level(subs, modname, conn):
    """the level a connection chose for a module (None: not enabled)"""
    if modname not in subs:
        return None
    if conn not in subs[modname]:
        return None
    return subs[modname][conn]


def CellSet(h, modname, conn, level):
    lv = LevelOf(level)
    if num_eq(lv, 99):
        return Level(h.subscriptions, modname, conn) is None
    return py_eq(Level(h.subscriptions, modname, conn), lv)


def OtherModulesSame(h, subs0, modname):
    return forall_str(lambda m: implies(m != modname, (m in h.subscriptions) == (m in subs0)
                                        and implies(m in subs0, same_value(h.subscriptions[m], subs0[m]))))


def InnerOf(subs, modname):
    return subs[modname] if modname in subs else {}


def OtherConnsSame(h, inner0, modname, conn):
    return modname in h.subscriptions and dict_same_except(h.subscriptions[modname], inner0, conn)


def SentTo(new, c, modname, name):
    return any(same_object(nth(e, 0), c) and nth(e, 1) == modname and nth(e, 2) == name for e in new)


def DeliveredSoFar(subscriptions, done, record, modname, ls0, ls1):
    """exactly the visited connections whose level is at or below the record's level got the message, once each"""
    new = ls1[len(ls0):]
    name = LEVEL_NAMES[record.levelno]
    return (is_prefix(ls0, ls1)
            and all(nth(e, 0) in done and subscriptions[nth(e, 0)] <= record.levelno
                    and nth(e, 1) == modname and nth(e, 2) == name for e in new)
            and forall_obj(lambda c: implies(c in done and subscriptions[c] <= record.levelno, SentTo(new, c, modname, name))))


def Delivered(h, record, ls0, ls1):
    """a record of module m reaches exactly the connections whose level for m is at or below the record's level"""
    if record.name not in h.subscriptions:
        return len(ls1) == len(ls0)
    subs = h.subscriptions[record.name]
    new = ls1[len(ls0):]
    name = LEVEL_NAMES[record.levelno]
    return (is_prefix(ls0, ls1)
            and all(nth(e, 0) in subs and subs[nth(e, 0)] <= record.levelno
                    and nth(e, 1) == record.name and nth(e, 2) == name for e in new)
            and len(new) <= len(subs)
            and forall_obj(lambda c: implies(c in subs and subs[c] <= record.levelno, SentTo(new, c, record.name, name))))


def GotView(ls1, ls0, conn):
    return forall_obj(lambda c: GOT(ls1, c) == (GOT(ls0, c) or same_object(c, conn)))


def Routed(subs, record, ls0, ls1):
    """a connection received a message during this call exactly when the record's module is one it enabled and the record's
    level is at or above the level it chose (GOT is the membership view of the delivery log)"""
    if record.name not in subs:
        return ls1 == ls0
    inner = subs[record.name]
    return forall_obj(lambda c: GOT(ls1, c) == (GOT(ls0, c) or (c in inner and inner[c] <= record.levelno)))


def RoutedSoFar(inner, done, record, ls0, ls1):
    return forall_obj(lambda c: GOT(ls1, c) == (GOT(ls0, c) or (c in done and c in inner and inner[c] <= record.levelno)))


def WrittenExists(h):
    import os
    return os.path.isfile(h.baseFilename)


def OwnDated(h, name):
    """<rootname>-YYYY-MM-DD.log: a dated log file of this handler (taken from the property: 'dated files' vs 'foreign files')"""
    import re
    return re.fullmatch(re.escape(h.rootname) + r'-\d{4}-\d{2}-\d{2}\.log', name) is not None


def RolloverRemoves(h, rem0, rem1):
    """C20 as stated: with retention N > 0 the file being written and the N-1 newest other dated files of the handler are kept,
    exactly the older dated files are removed (once each), and nothing else in the directory - foreign files, sub-directories,
    the `current` link - is ever removed; with retention 0 nothing is removed"""
    new = rem1[len(rem0):]
    if rem1[:len(rem0)] != rem0:
        return False
    if h.max_days == 0:
        return new == []
    written = basename(h.baseFilename)
    earlier = sorted(e.name for e in DIRLIST(dirname(h.baseFilename)).entries
                     if OwnDated(h, e.name) and e.is_file and e.name != written)
    expected = earlier[:max(0, len(earlier) - (h.max_days - 1))]
    return sorted(basename(p) for p in new) == expected and all(dirname(p) == dirname(h.baseFilename) for p in new)


CONTRACTS = [
    dict(key='check_level', file='frappy/logging.py', func='check_level', serves=['C20'],
         requires=[], module_values={'LOG_LEVELS': LOG_LEVELS, 'LEVEL_NAMES': LEVEL_NAMES},
         ensures={'valid': 'ValidLevel(level) and py_eq(result, LevelOf(level))'},
         raises={'cls': 'issubclass(exc, ValueError) or (issubclass(exc, TypeError) and not is_hashable(level))', 'invalid': 'not ValidLevel(level)'},
         lemmas={'accepts': dict(requires=['ValidLevel(level)'], ensures={}, raises='never')}),
    # the per-connection callback of the dispatcher: records the delivery
    dict(key='send_log', file=None, func=None, packed_args=True, serves=[], trusted=True, requires=[],
         ghost_modifies=['log_sent'],
         ensures={'logged': 'log_sent == old(log_sent) + [(nth(args, 0), nth(args, 1), nth(args, 2))]',
                  # GOT(log, c): connection c received a message of this log (defining equation of the view, per append)
                  'view': 'GotView(log_sent, old(log_sent), nth(args, 0))',
                  'about': 'nth(args, 1) == SENT_MOD(log_sent) and nth(args, 2) == SENT_LEVEL(log_sent)'}, raises='never'),
    dict(key='LogRecord.getMessage', file=None, func=None, signature='self', serves=[], trusted=True, requires=[],
         ensures={'text': 'is_str(result)'}, raises='never', result_kind='str'),
    dict(key='RemoteLogHandler.set_conn_level', file='frappy/logging.py', func='RemoteLogHandler.set_conn_level', serves=['C20'],
         self_type='RemoteLogHandler', params={'modname': 'str', 'conn': 'Conn'},
         requires=['inv(self)'], modifies=['subscriptions'],
         ensures={'cell': 'CellSet(self, modname, conn, level)',
                  'other_modules': 'OtherModulesSame(self, old(self.subscriptions), modname)',
                  'other_conns': 'OtherConnsSame(self, old(InnerOf(self.subscriptions, modname)), modname, conn)'},
         raises={'cls': 'issubclass(exc, ValueError) or (issubclass(exc, TypeError) and not is_hashable(level))', 'invalid': 'not ValidLevel(level)',
                 'untouched': "unchanged('subscriptions') and self.subscriptions == old(self.subscriptions)"}),
    dict(key='RemoteLogHandler.handle[vc]', file='frappy/logging.py', func='RemoteLogHandler.handle', serves=['C20'],
         self_type='RemoteLogHandler', params={'record': 'LogRecord'},
         requires=['inv(self)', 'inv(record)', 'record.levelno in LEVEL_NAMES', "'.' not in record.name"],
         module_values={'LEVEL_NAMES': LEVEL_NAMES}, ghost_modifies=['log_sent'],
         ensures={'exactly_the_subscribers': 'Routed(self.subscriptions, record, old(log_sent), log_sent)'},
         raises='never'),
    dict(key='RemoteLogHandler.handle', vc=False, file='frappy/logging.py', func='RemoteLogHandler.handle', serves=['C20'],
         self_type='RemoteLogHandler', params={'record': 'LogRecord'},
         requires=['inv(self)', 'inv(record)', 'record.levelno in LEVEL_NAMES', "'.' not in record.name"],
         module_values={'LEVEL_NAMES': LEVEL_NAMES},
         ensures={'delivered': 'Delivered(self, record, old(log_sent), log_sent)'}, raises='never'),
    # ---- rotation: the directory listing and os.remove are abstract; `removed` records the removals
    dict(key='os.path.dirname', file=None, func=None, signature='p', serves=[], trusted=True, requires=[],
         ensures={'text': 'is_str(result)'}, raises='never', result_kind='str'),
    dict(key='os.scandir', file=None, func=None, signature='p', serves=[], trusted=True, requires=[],
         ensures={'listing': 'same_object(result, DIRLIST(p))'}, raises='never', result_type='ScandirIter', result_kind='ScandirIter'),
    dict(key='os.remove', file=None, func=None, signature='p', serves=[], trusted=True, requires=[],
         ghost_modifies=['removed'], ensures={'logged': 'removed == old(removed) + [p]'}, raises='never'),
    dict(key='mlzlog.LogfileHandler.doRollover', file=None, func=None, signature='self', serves=[], trusted=True,
         requires=[], modifies=['baseFilename'], ensures={}, raises='never'),
    dict(key='LogfileHandler.doRollover', vc=False, file='frappy/logging.py', func='LogfileHandler.doRollover', serves=['C20'],
         self_type='LogfileHandler', requires=['inv(self)', 'self.max_days >= 0'], modifies=['baseFilename'],
         ensures={'removed': 'RolloverRemoves(self, old(removed), removed)', 'written_kept': 'WrittenExists(self)'}, raises='never'),
]
LOOPS = {
    'RemoteLogHandler.handle#0': dict(header='subscriptions.items()', ghost=['log_sent'],
        invariant={'sofar': 'RoutedSoFar(subscriptions, done__, record, old(log_sent), log_sent)'}),
}
register(globals())
