"""Sidecar contracts for applying configured parameter values (C10)."""
from pyvc.native import *      # noqa: F401,F403

CONTEXT_FILE = 'frappy/modulebase.py'
SOURCES = ['frappy/modulebase.py', 'frappy/params.py', 'frappy/errors.py']
GHOSTS = ['driver_calls']
UFS = {'WROTE': (['val', 'str'], 'bool')}
ASSUMPTIONS = [
    'A3/A6/A7 as for the other properties',
    'setattr(self, <pname>, value) (the parameter descriptor: validation + update) is abstracted as an attribute store;'
    ' write_<pname> methods are abstract driver calls recorded in the ghost log driver_calls (any result, any Exception)',
    'Parameter.hasDatatype / Limit.set_datatype are abstract',
]

CLASSES = {
    'DataType': dict(fields={'default': 'any'}),
    'Exception': dict(fields={}, bases=[]),
    'Parameter': dict(fields={'datatype': 'DataType|none', 'value': 'any', 'default': 'any', 'readerror': 'any', 'needscfg': 'bool',
                              'given': 'bool', 'name': 'str'}),
    'Limit': dict(fields={'datatype': 'DataType|none', 'value': 'any', 'default': 'any', 'readerror': 'any', 'needscfg': 'bool',
                          'given': 'bool', 'name': 'str'}, bases=['Parameter']),
    'Module': dict(fields={'name': 'str', 'parameters': 'dict:Parameter', 'paramCallbacks': 'dict', 'errors': 'list:str',
                           'writeDict': 'dict', 'log': 'any'}),
}
DYN_TYPES = {'Module': [('write_', 'dyn::Module.write_', 'pname')]}


def Registered(m, pname, value):
    return pname in m.writeDict and same_value(m.writeDict[pname], value)


def UnitsOf(m):
    """the units the module describes, per parameter, in document order of the datainfo"""
    def walk(d, out):
        if isinstance(d, dict):
            if 'unit' in d:
                out.append(d['unit'])
            for k in sorted(d):
                if k != 'unit':
                    walk(d[k], out)
        elif isinstance(d, (list, tuple)):
            for x in d:
                walk(x, out)
        return out
    return {p: walk(pobj.datatype.export_datatype(), []) for p, pobj in m.parameters.items()}


def UnitsAsConfigured(m, expect_units):
    got = UnitsOf(m)
    return all(got[p] == u for p, u in expect_units.items())


CONTRACTS = [
    dict(key='Parameter.hasDatatype', file=None, func=None, signature='self', serves=[], trusted=True, requires=[],
         pure=dict(args=['self'], reads=[]), ensures={'bool': 'is_bool(result)'}, raises='never'),
    dict(key='Limit.hasDatatype', file=None, func=None, signature='self', serves=[], trusted=True, requires=[],
         pure=dict(args=['self'], reads=[]), ensures={'bool': 'is_bool(result)'}, raises='never'),
    dict(key='Limit.set_datatype', file=None, func=None, signature='self, datatype', serves=[], trusted=True, requires=[],
         modifies=['self.datatype'], ensures={}, raises='never'),
    dict(key='dyn::Module.write_', file=None, func=None, signature='self, value', serves=[], trusted=True, requires=[],
         ghost_modifies=['driver_calls'],
         ensures={'logged': 'driver_calls == old(driver_calls) + [(pname, value)]', 'view': 'WroteView(driver_calls, old(driver_calls), pname)'},
         raises={'logged': 'driver_calls == old(driver_calls) + [(pname, value)]', 'view': 'WroteView(driver_calls, old(driver_calls), pname)'}),
    dict(key='Module._handle_writes', file='frappy/modulebase.py', func='Module._handle_writes', serves=['C10'],
         self_type='Module', params={'pname': 'str', 'pobj': 'Parameter'},
         requires=['inv(self)', 'inv(pobj)'],
         modifies=['paramCallbacks', 'errors', 'writeDict', 'value', 'default', 'readerror', 'given', 'datatype'],
         check_frame=False,
         ensures={'registered': "implies(old(pobj.value) is not None and has_dyn(self, 'write_' + pname) and Configurable(self, pname, pobj, old(self.errors)),"
                                ' Registered(self, pname, old(pobj.value)))',
                  'start_value': 'implies(Configurable(self, pname, pobj, old(self.errors)) and old(pobj.value) is not None,'
                                 ' same_value(pobj.value, old(pobj.value)) and pobj.given is True)',
                  'default_applied': 'implies(Configurable(self, pname, pobj, old(self.errors)) and old(pobj.value) is None,'
                                     ' same_value(pobj.value, pobj.default) and same_value(self.writeDict, old(self.writeDict)))',
                  'needscfg_reported': 'implies(Configurable(self, pname, pobj, old(self.errors)) and old(pobj.value) is None and pobj.needscfg,'
                                       ' len(self.errors) > len(old(self.errors)))'},
         reach={'configured': "old(pobj.value) is not None and has_dyn(self, 'write_' + pname) and len(self.errors) == len(old(self.errors))"},
         raises={'cls': 'issubclass(exc, Exception)'}),
    # bounded stand-in only: a whole module configuration is applied (values checked against the datatype WITH the configured
    # overrides) or rejected as a whole
    dict(key='Module.__init__', vc=False, file='frappy/modulebase.py', func='Module.__init__', serves=['C10'], self_type='Module',
         requires=[],
         ensures={'valid_config': 'not expect_reject',
                  'start_values': 'all(getattr(self, p) == v for p, v in expect_values.items())',
                  'overrides': 'all(getattr(self.parameters[p].datatype, prop) == v for (p, prop), v in expect_props.items())',
                  # the main unit configured for THIS instance shows in every $-unit of its description, and creating this instance
                  # left the descriptions of the instances created before as they were
                  'main_unit': 'UnitsAsConfigured(self, expect_units)',
                  'earlier_instances': 'all(UnitsAsConfigured(m, u) for m, u in earlier)'},
         # (an unknown property name surfaces as ProgrammingError; the node collects either kind and refuses to start)
         raises={'cls': 'issubclass(exc, ConfigError) or issubclass(exc, ProgrammingError)', 'invalid_config': 'expect_reject'}),
    dict(key='formatException', file=None, func=None, packed_args=True, serves=[], trusted=True, requires=[],
         ensures={'text': 'is_str(result)'}, raises='never', result_kind='str'),
    dict(key='Module.writeInitParams', file='frappy/modulebase.py', func='Module.writeInitParams', serves=['C10'],
         self_type='Module', requires=['inv(self)'], modifies=['writeDict'], ghost_modifies=['driver_calls'], check_frame=False,
         ensures={'emptied': 'forall_str(lambda n: n not in self.writeDict)'},
         # bounded stand-in only (quantified log clauses exceed the solver): what is written, and how often
         bounded_ensures={'configured_only': 'ConfiguredOnly(self, old(self.writeDict), driver_calls[len(old(driver_calls)):])',
                          'each_once': 'EachOnce(self, old(self.writeDict), driver_calls[len(old(driver_calls)):], LOGGED)'},
         raises='never'),
]
LOOPS = {
    'Module.writeInitParams#0': dict(header='list(self.writeDict)', modifies=['writeDict'], ghost=['driver_calls'],
        invariant={'inv': 'inv(self)',
                   'popped': 'PoppedSoFar(self.writeDict, old(self.writeDict), done__)',
                   }),
}


def WroteView(l1, l0, pname):
    """WROTE(log, n): the write method of parameter n was called in this log (defining equation of the view, per append)"""
    return forall_str(lambda n: WROTE(l1, n) == (WROTE(l0, n) or n == pname))


def WrittenIffConfigured(m, wd0, l0, l1):
    """a write method is called by this function exactly for the parameters that had a configured value pending"""
    return forall_str(lambda n: WROTE(l1, n) == (WROTE(l0, n) or (n in wd0 and has_dyn(m, 'write_' + n))))


def WrittenSoFar(m, done, l0, l1):
    return forall_str(lambda n: WROTE(l1, n) == (WROTE(l0, n) or (n in done and has_dyn(m, 'write_' + n))))


def PoppedSoFar(wd1, wd0, done):
    return forall_str(lambda n: implies(n in done, n not in wd1)
                      and implies(n not in done, (n in wd1) == (n in wd0) and implies(n in wd0, same_value(wd1[n], wd0[n]))))


def EachOnce(m, wd0, new, logged):
    """(bounded only) every configured parameter with a (logging) write method is written exactly once"""
    return all(len([1 for e in new if e[0] == n]) == (1 if n in logged else 0) for n in wd0)


def ConfiguredOnly(m, wd0, new):
    """(bounded only) every driver write issued is the write of the configured value of that parameter, converted to its datatype"""
    return all(e[0] in wd0 and m.parameters[e[0]].datatype(wd0[e[0]]) == e[1] for e in new)


def BaseOf(m, pname):
    return m.parameters.get(pname.rpartition('_')[0])


def Configurable(m, pname, pobj, errors0):
    """the parameter has a datatype and, for a limit parameter, the base parameter exists and has a datatype
    (otherwise an error is reported for this parameter or for the base parameter)"""
    if is_instance_of(pobj, Limit) and (BaseOf(m, pname) is None or BaseOf(m, pname).datatype is None):
        return False
    return pobj.hasDatatype()


register(globals())
