"""Sidecar contracts for the poller (C13, C15)."""
from pyvc.native import *      # noqa: F401,F403

CONTEXT_FILE = 'frappy/modulebase.py'
SOURCES = ['frappy/modulebase.py', 'frappy/secnode.py', 'frappy/errors.py']
GHOSTS = ['poll_calls', 'wakeups', 'life']
ASSUMPTIONS = [
    'A3/A6/A7 as for the other properties',
    'read / poll functions are abstract callables: any result, any Exception (recorded in the ghost log poll_calls)',
    'SECoPError.format does not raise; raising_methods of a SECoPError is a list',
    'the poll thread body (Module.__pollThread: two nested unbounded loops over wall-clock time) is not under a deductive contract;'
    ' its timing and ordering clauses are evaluated by the bounded stand-in in virtual time',
]

CLASSES = {
    'Exception': dict(fields={'report_error': 'any', 'raising_methods': 'list', 'silent': 'any'}, bases=[]),
    'SECoPError': dict(fields={'report_error': 'any', 'raising_methods': 'list', 'silent': 'any'}),
    'Event': dict(fields={}),
    'PollInfo': dict(fields={'pending_errors': 'set', 'interval': 'any', 'last_main': 'any', 'last_slow': 'any', 'fast_flag': 'any',
                             'trigger_event': 'Event'}),
    'Module': dict(fields={'name': 'str', 'pollInfo': 'PollInfo|none', 'log': 'any', 'pollinterval': 'any', 'enablePoll': 'bool',
                           'writeDict': 'dict', 'polledModules': 'list:Module', 'triggerPoll': 'any', 'initModuleDone': 'any',
                           'earlyInitDone': 'any', '_isinitialized': 'bool'},
                   dyn_fields={'io': 'Module'}, virtual=['earlyInit', 'initModule']),
    'SecNode': dict(fields={'errors': 'list', 'traceback_counter': 'int', 'log': 'any', 'modules': 'dict'}),
}

def InThread(m, has_io):
    """the module is in the list of modules of the poll thread that serves it"""
    owner = getattr(m, 'io') if has_io else m
    return len(owner.polledModules) > 0 and same_object(owner.polledModules[len(owner.polledModules) - 1], m)


def ThreadHasTrigger(m, has_io):
    owner = getattr(m, 'io') if has_io else m
    return owner.triggerPoll is not None


def Calls(log, kind, mod=None, name=None):
    return [e for e in log if e[1] == kind and (mod is None or e[2] == mod) and (name is None or e[3] == name)]


def MainPollPeriod(log, mods, t_end):
    """(bounded only) every polled module's main poll starts again no later than its interval plus one sweep of the thread's work"""
    sweep = sum(m.cost_main for m in mods) + max([m.cost_slow for m in mods] + [0]) + 0.002
    for m in mods:
        if not m.enablePoll:
            continue
        starts = [e[0] for e in Calls(log, 'doPoll', m.name)]
        if not starts:
            return False
        gaps = [b - a for a, b in zip(starts, starts[1:])] + [t_end - starts[-1]]
        if max(gaps) > m.current_interval_max + sweep + 1e-9:
            return False
        # interval changes / fast polling take effect from the next wake-up: once the last scripted change has settled, the
        # module is polled at its current poll interval (not at a stale one)
        late = [s for s in starts if s >= m.settled_at]
        lgaps = [b - a for a, b in zip(late, late[1:])] + ([t_end - late[-1]] if late else [])
        if late and max(lgaps) > m.pollinterval + sweep + 1e-9:
            return False
    return True


def SlowRefresh(log, mods, t_end):
    """(bounded only) every polled parameter is refreshed within a bounded multiple of its module's slow interval, and is not
    re-read by the slow poll more often than every half slow interval"""
    nparams = sum(len(m.polled_names) for m in mods if m.enablePoll)
    for m in mods:
        if not m.enablePoll:
            continue
        turn = max(min(x.current_interval_min for x in mods if x.enablePoll), 0.001) + sum(x.cost_main for x in mods) + m.cost_slow
        bound = 2 * m.slowinterval + (nparams + 2) * turn
        for pn in m.polled_names:
            reads = [e[0] for e in Calls(log, 'read', m.name, pn) if e[4] == 'slow']
            times = [m.first_read_time] + reads + [t_end]
            if any(b - a > bound + 1e-9 for a, b in zip(times, times[1:])):
                return False
            if any(b - a < 0.5 * m.slowinterval - 1e-9 for a, b in zip(reads, reads[1:])):
                return False
    return True


def NoPollNeverRead(log):
    return not [e for e in log if e[1] == 'read' and e[5] is False]


def InitBeforePoll(log, mods):
    """(bounded only) every module handled by the thread - polled or not - gets its configured values written and its initial
    reads done before anything is polled, and the start-up callback is called exactly once, after that"""
    first_poll = min([e[0] for e in log if e[1] in ('doPoll',) or (e[1] == 'read' and e[4] == 'slow')] + [float('inf')])
    started = [e for e in log if e[1] == 'started']
    if len(started) != 1:
        return False
    for m in mods:
        w = Calls(log, 'write', m.name)
        if sorted(e[3] for e in w) != sorted(m.configured) or any(e[0] > first_poll for e in w):
            return False
        ir = Calls(log, 'initialReads', m.name)
        if len(ir) != 1 or ir[0][0] > first_poll or ir[0][6] > started[0][6] or any(e[6] > ir[0][6] for e in w):
            return False
    return True


CONTRACTS = [
    # bounded stand-in only: the poll thread body in virtual time on real modules with scripted drivers
    dict(key='Module.__pollThread', vc=False, file='frappy/modulebase.py', func='Module.__pollThread', serves=['C13', 'C15'],
         self_type='Module', requires=[],
         ensures={'main_poll_period': 'MainPollPeriod(poll_log, all_modules, t_end)',
                  'slow_refresh': 'SlowRefresh(poll_log, all_modules, t_end)',
                  'nopoll_never': 'NoPollNeverRead(poll_log)',
                  'init_before_poll': 'InitBeforePoll(poll_log, all_modules)'},
         raises='never'),
    dict(key='pollfn', file=None, func=None, packed_args=True, serves=[], trusted=True, requires=[],
         ghost_modifies=['poll_calls'],
         ensures={'logged': 'poll_calls == old(poll_calls) + [callee]'},
         raises={'logged': 'poll_calls == old(poll_calls) + [callee]', 'kinds': 'is_list(excval.raising_methods)'}),
    dict(key='SECoPError.format', file=None, func=None, signature='self, verbose', serves=[], trusted=True, requires=[],
         ensures={'text': 'is_str(result)'}, raises='never', result_kind='str'),
    dict(key='formatException', file=None, func=None, packed_args=True, serves=[], trusted=True, requires=[],
         ensures={'text': 'is_str(result)'}, raises='never', result_kind='str'),
    # ---- interval changes and fast polling take effect from the next wake-up: the new interval is stored and the thread is woken
    dict(key='Event.set', file=None, func=None, signature='self', serves=[], trusted=True, requires=[], ghost_modifies=['wakeups'],
         ensures={'woken': 'wakeups == old(wakeups) + [self]'}, raises='never'),
    dict(key='PollInfo.trigger', file='frappy/modulebase.py', func='PollInfo.trigger', serves=['C13'], self_type='PollInfo',
         requires=['inv(self)'], modifies=['last_main'], ghost_modifies=['wakeups'],
         ensures={'woken': 'wakeups == old(wakeups) + [self.trigger_event]',
                  'immediate': 'implies(immediate is True, py_eq(self.last_main, 0))',
                  'otherwise': 'implies(immediate is False, same_value(self.last_main, old(self.last_main)))'},
         raises='never'),
    dict(key='PollInfo.update_interval', file='frappy/modulebase.py', func='PollInfo.update_interval', serves=['C13'], self_type='PollInfo',
         requires=['inv(self)', 'is_bool(self.fast_flag)'], modifies=['interval', 'last_main'], ghost_modifies=['wakeups'],
         ensures={'applied': 'implies(not self.fast_flag, same_value(self.interval, pollinterval) and len(wakeups) == len(old(wakeups)) + 1)',
                  'fast_wins': 'implies(self.fast_flag, same_value(self.interval, old(self.interval)) and wakeups == old(wakeups))'},
         raises='never'),
    dict(key='Module.setFastPoll', file='frappy/modulebase.py', func='Module.setFastPoll', serves=['C13'], self_type='Module',
         params={'flag': 'bool'}, requires=['inv(self)', 'implies(self.pollInfo is not None, inv(self.pollInfo))'],
         modifies=['fast_flag', 'interval', 'last_main'], ghost_modifies=['wakeups'],
         ensures={'fast': 'implies(self.pollInfo is not None and flag, same_value(self.pollInfo.interval, fast_interval))',
                  'normal': 'implies(self.pollInfo is not None and not flag, same_value(self.pollInfo.interval, self.pollinterval))',
                  'flag': 'implies(self.pollInfo is not None, self.pollInfo.fast_flag is flag and len(wakeups) == len(old(wakeups)) + 1)',
                  'no_thread': 'implies(self.pollInfo is None, wakeups == old(wakeups))'},
         raises='never'),
    # ---- C15: a module is marked initialised only after its earlyInit / initModule ran: while they run (and may reach other
    #      modules through attachments, re-entering get_module) it must not yet count as initialised - otherwise a cyclic
    #      attachment hands out a half-initialised module instead of ending in a reported error.  Stated as the precondition of the
    #      (abstract) init methods, i.e. as a call-site obligation in get_module.
    dict(key='SecNode.get_module_instance', file=None, func=None, signature='self, modulename', serves=[], trusted=True, requires=[],
         ensures={'inv': 'result is None or inv(result)'}, raises='never', result_kind='Module|none', result_type='Module'),
    dict(key='iface::Module.earlyInit', file=None, func=None, signature='self', serves=[], trusted=True,
         requires=['self._isinitialized is False'], modifies=['self.earlyInitDone'], ghost_modifies=['life'],
         ensures={'logged': "life == old(life) + [('early', self)]", 'inv': 'inv(self)'},
         raises={'logged': "life == old(life) + [('early', self)]", 'inv': 'inv(self)'}),
    dict(key='iface::Module.initModule', file=None, func=None, signature='self', serves=[], trusted=True,
         requires=['self._isinitialized is False'], modifies=['self.initModuleDone', 'polledModules', 'triggerPoll'], ghost_modifies=['life'],
         ensures={'logged': "life == old(life) + [('init', self)]", 'inv': 'inv(self)'},
         raises={'logged': "life == old(life) + [('init', self)]", 'inv': 'inv(self)'}),
    dict(key='traceback.format_exc', file=None, func=None, signature='', serves=[], trusted=True, requires=[],
         ensures={'text': 'is_str(result)'}, raises='never', result_kind='str'),
    dict(key='SecNode.get_module', file='frappy/secnode.py', func='SecNode.get_module', serves=['C15'], self_type='SecNode',
         params={'modulename': 'str'}, requires=['inv(self)'],
         modifies=['errors', 'traceback_counter', '_isinitialized', 'earlyInitDone', 'initModuleDone', 'polledModules', 'triggerPoll'],
         ghost_modifies=['life'], check_frame=False,
         ensures={'initialised': 'result is None or result._isinitialized is True',
                  'early_then_init': 'len(life) <= len(old(life)) + 2'},
         raises='never'),
    # ---- C15: a module that is polled OR has configured values to write is handed to a poll thread (its own or its io module's)
    dict(key='threading.Event', file=None, func=None, signature='', serves=[], trusted=True, requires=[], ensures={}, raises='never',
         result_type='Event', result_fresh=True),
    dict(key='Module.initModule', file='frappy/modulebase.py', func='Module.initModule', serves=['C15'], self_type='Module',
         requires=['inv(self)', "implies(has_dyn(self, 'io'), inv(getattr(self, 'io')))"],
         modifies=['initModuleDone', 'polledModules', 'triggerPoll'], check_frame=False,
         ensures={'handled': "implies(self.enablePoll or len(old(self.writeDict)) > 0, InThread(self, has_dyn(self, 'io')))",
                  'trigger': "implies(self.enablePoll or len(old(self.writeDict)) > 0, ThreadHasTrigger(self, has_dyn(self, 'io')))",
                  'unhandled': "implies(not self.enablePoll and len(old(self.writeDict)) == 0,"
                               " unchanged('polledModules') and unchanged('triggerPoll'))",
                  'done': 'self.initModuleDone is True'},
         raises='never'),
    # error containment: whatever a read / poll function raises stays inside, except a communication failure when asked for
    dict(key='Module.callPollFunc', file='frappy/modulebase.py', func='Module.callPollFunc', serves=['C13'],
         self_type='Module', params={'rfunc': 'callable:pollfn', 'raise_com_failed': 'bool'},
         requires=['inv(self)', 'self.pollInfo is not None', 'inv(self.pollInfo)'], modifies=['pending_errors', 'raising_methods'], ghost_modifies=['poll_calls'],
         check_frame=False,
         ensures={'called_once': 'poll_calls == old(poll_calls) + [rfunc]'},
         raises={'only_when_asked': 'raise_com_failed and issubclass(exc, CommunicationFailedError)',
                 'called_once': 'poll_calls == old(poll_calls) + [rfunc]'},
         lemmas={'contained': dict(requires=['not raise_com_failed'], ensures={}, raises='never')}),
]
LOOPS = {}
register(globals())
