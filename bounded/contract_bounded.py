"""Bounded stand-in: the contracts of the sidecar files evaluated by CPython on the real functions over
enumerated inputs (run by /venv/bin/python).  Labelled bounded everywhere; never counted as proved.

stdin : JSON {tier, seed, args: {contract_file, gens, keys?, replay?}}
stdout: JSON {evaluations, distinct, bound, exhaustive, samples, violations}

`gens` names a module bounded/<gens>.py with GENS = {contract key: generator(tier, rng)}; a generator
yields cases  dict(label=..., self=<receiver or None>, args={...}, ghosts={name: live object},
call=<optional callable>, case=<lemma name, default 'contract'>)  built from the REAL classes of /repo.
The clause texts are those of the contract (the same text the VC generator reads).
"""
import importlib.util
import json
import os
import random
import sys
import time
import traceback

VERIF = os.path.dirname(os.path.dirname(os.path.abspath(__file__)))
sys.path.insert(0, VERIF)
sys.path.insert(0, os.environ.get('VERIF_REPO', '/repo'))

from pyvc import replay_native as RN     # noqa: E402


def load(path, name):
    spec = importlib.util.spec_from_file_location(name, path)
    mod = importlib.util.module_from_spec(spec)
    sys.modules[name] = mod
    spec.loader.exec_module(mod)
    return mod


def main():
    req = json.load(sys.stdin)
    real_out = sys.stdout
    sys.stdout = open(os.devnull, 'w')       # the code under test prints (tracebacks of the request loop)
    try:
        run(req, real_out)
    finally:
        sys.stdout = real_out


def run(req, real_out):
    tier, seed, args = req.get('tier', 'quick'), int(req.get('seed', 0)), req['args']
    cmod = RN.load_module(os.path.join(VERIF, args['contract_file']))
    gmod = load(os.path.join(VERIF, 'bounded', args['gens'] + '.py'), 'gens_' + args['gens'])
    gmod.C = cmod
    contracts = {c['key']: c for c in cmod.CONTRACTS}
    keys = args.get('keys') or sorted(gmod.GENS)
    evals, distinct, samples, violations, bounds, skipped = 0, set(), [], [], [], 0
    per_clause = {}
    deadline = time.time() + (args.get('budget', 120) * (1 if tier == 'quick' else 5))
    for key in keys:
        c = contracts[key]
        ns, fn = RN.namespace(cmod, c) if c.get('file') else (dict(vars(cmod)), None)
        gen = gmod.GENS[key]
        rng = random.Random(seed)
        n = 0
        nret = 0
        for case in gen(tier, rng):
            if time.time() > deadline:
                break
            label = case.get('label', '')
            try:
                out = RN.evaluate(c, case.get('case', 'contract'), ns, fn, case.get('self'), case.get('args', {}),
                                  ghosts=case.get('ghosts'), call=case.get('call') or (lambda s=case.get('self'), a=case.get('args', {}): (fn(s, **a) if s is not None else fn(**a))))
            except Exception as e:      # harness failure: reported as checker error by the driver
                json.dump({'error': f'{key} {label}: {type(e).__name__}: {e} {traceback.format_exc()[-800:]}'}, real_out)
                return
            if not out.get('pre_ok'):
                skipped += 1
                continue
            n += 1
            evals += 1
            nret += 1 if out.get('outcome') == 'ret' else 0
            distinct.add((key, label))
            if len(samples) < 8 and evals % 211 == 1:
                samples.append({'contract': key, 'input': label, 'outcome': out.get('outcome')})
            for cl in out.get('violated', []):
                per_clause[(key, cl)] = per_clause.get((key, cl), 0) + 1
                if per_clause[(key, cl)] <= 3:          # a few witnesses per clause; no global cap that could hide other clauses
                    v = {'clause': f'{key}/{cl}', 'contract': key, 'file': c.get('file'), 'func': c.get('func'),
                         'input': {'case': label, **out.get('args', {})},
                         'observed': {k: out.get(k) for k in ('outcome', 'result', 'exc', 'clauses')}}
                    fk = (case.get('finding_keys') or {}).get(cl)
                    if fk:
                        v['finding_key'] = fk       # the input class of a finding recorded in known_findings.json
                    violations.append(v)
        if n > 0 and nret == 0 and (c.get('ensures') or c.get('bounded_ensures')):
            # every case ended in an exception although postconditions are stated: the harness, not the code, is at fault
            json.dump({'error': f'{key}: none of the {n} cases returned normally (vacuity guard of the bounded stand-in)'}, real_out)
            return
        bounds.append(f'{key}: {n} cases ({getattr(gen, "bound", gen.__doc__ or "")})')
    json.dump({'evaluations': evals, 'distinct': len(distinct), 'bound': '; '.join(bounds), 'exhaustive': False,
               'samples': samples, 'violations': violations, 'skipped_pre': skipped}, real_out, default=repr)


if __name__ == '__main__':
    main()
