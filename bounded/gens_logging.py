"""input generators of the bounded tier for contracts/logging.py (C20); real classes of frappy.logging"""
import itertools
import os
import shutil
import tempfile
import types

from pyvc import native

C = None      # the contract module (set by contract_bounded)


class Conn:
    def __init__(self, n):
        self.n = n

    def __repr__(self):
        return f'conn{self.n}'


def _native_views():
    C.GOT = lambda log, c: any(e[0] is c for e in log)
    C.SENT_MOD = lambda log: log[-1][1]
    C.SENT_LEVEL = lambda log: log[-1][2]


def _handler(table, log):
    _native_views()
    from frappy.logging import RemoteLogHandler
    h = RemoteLogHandler()
    h.subscriptions = {m: dict(inner) for m, inner in table.items()}
    h.send_log = lambda *a: log.append(a)
    return h


def _tables(conns, tier):
    cells = [None, 10, 20, 40] if tier == 'quick' else [None, 10, 15, 20, 30, 40]
    for lv in itertools.product(cells, repeat=4):
        t = {}
        for (m, c), l in zip([('a', 0), ('a', 1), ('b', 0), ('b', 1)], lv):
            if l is not None:
                t.setdefault(m, {})[conns[c]] = l
        yield t
        if 'a' not in t:
            yield dict(t, a={})        # a module entry left empty by an earlier 'off'


def gen_set_conn_level(tier, rng):
    """subscription tables over 2 modules x 2 connections x levels; module a/b/unknown, 3 connections, valid and invalid levels"""
    conns = [Conn(0), Conn(1), Conn(2)]
    native.OBJ_UNIVERSE[:] = conns
    native.STR_UNIVERSE[:] = ['a', 'b', 'c', '']
    levels = ['debug', 'INFO', 'off', 'Off', 99, 10, 15, 25, 'bogus', None, 20.0, True, 'comlog', 0]
    for t in _tables(conns, tier):
        for m in ('a', 'b', 'c'):
            for c in conns:
                for lv in levels:
                    h = _handler(t, [])
                    yield dict(label=f'{t!r} set({m},{c},{lv!r})', self=h, args={'modname': m, 'conn': c, 'level': lv})


def gen_check_level(tier, rng):
    """level names in any case, numbers, floats, enums-free junk"""
    for lv in ['debug', 'DEBUG', 'Info', 'warning', 'error', 'off', 'comlog', 'bogus', '', 10, 15, 20, 30, 40, 99, 0, 11, 20.0, 20.5,
               None, True, (), [10], 'ERROR ']:
        yield dict(label=repr(lv), self=None, args={'level': lv})


def gen_handle(tier, rng):
    """records of module a/b/unknown at every level against every subscription table"""
    import logging
    conns = [Conn(0), Conn(1), Conn(2)]
    native.OBJ_UNIVERSE[:] = conns
    for t in _tables(conns, tier):
        for m in ('a', 'b', 'c'):
            for lv in (10, 15, 20, 30, 40):
                log = [('earlier',)]
                h = _handler(t, log)
                rec = logging.LogRecord(m, lv, 'f.py', 1, 'msg %s', ('x',), None)
                yield dict(label=f'{t!r} record({m},{lv})', self=h, args={'record': rec}, ghosts={'log_sent': log})


class _OsProxy:
    """os as seen by frappy.logging during a bounded rollover: the listing seen by scandir is recorded, removals are logged"""
    def __init__(self, removed):
        self.removed = removed

    def __getattr__(self, name):
        return getattr(os, name)

    def scandir(self, p):
        it = os.scandir(p)
        entries = [types.SimpleNamespace(path=e.path, name=e.name, is_file=e.is_file(follow_symlinks=False)) for e in it]
        it.close()
        C._DIR[p] = types.SimpleNamespace(entries=entries)
        return os.scandir(p)

    def remove(self, p):
        self.removed.append(p)
        os.remove(p)


def gen_rollover(tier, rng):
    """log directories with 0..6 dated files of the handler (one of them dated in the future), the current link, and foreign content
    (files sorting before / between / after the dated ones, a foreign '<root>-notes.log', a sub-directory as created by getChild),
    retention 0..4 days, two rotations in a row"""
    import frappy.logging as FL
    C._DIR = {}
    C.DIRLIST = lambda p: C._DIR[p]
    C.dirname = os.path.dirname
    C.basename = os.path.basename
    names = ['n-2020-01-01.log', 'n-2020-01-02.log', 'n-2020-01-10.log', 'n-2020-02-01.log', 'n-2021-01-01.log', 'n-2019-12-31.log']
    foreign_sets = [(), ('zz-notes.txt',), ('README',), ('n-notes.log', 'n-2020-01-05.txt'), ('sub/',), ('n-2999-01-01.log',),
                    ('README', 'zz-notes.txt', 'sub/', 'n-2020-01-03.log.gz')]
    for nfiles in range(0, 7):
        for max_days in range(0, 5):
            for foreign in (foreign_sets if tier != 'quick' or nfiles in (0, 1, 2, 5) else foreign_sets[:2]):
                d = tempfile.mkdtemp(prefix='verif-roll-')
                try:
                    chosen = list(names[:nfiles])
                    rng.shuffle(chosen)
                    removed = []
                    h = FL.LogfileHandler(d, 'n', max_days=max_days)
                    h.stream = h._open()
                    for n in chosen + list(foreign):
                        if n.endswith('/'):
                            os.mkdir(os.path.join(d, 'n', n[:-1]))
                            continue
                        with open(os.path.join(d, 'n', n), 'w') as f:
                            f.write('x')
                    saved = FL.os
                    FL.os = _OsProxy(removed)
                    try:
                        for rotation in (1, 2):
                            yield dict(label=f'files={sorted(chosen)} foreign={foreign} max_days={max_days} rotation={rotation}',
                                       self=h, args={}, ghosts={'removed': removed})
                    finally:
                        FL.os = saved
                        if h.stream:
                            h.stream.close()
                finally:
                    shutil.rmtree(d, ignore_errors=True)


GENS = {
    'RemoteLogHandler.set_conn_level': gen_set_conn_level,
    'check_level': gen_check_level,
    'RemoteLogHandler.handle': gen_handle,
    'LogfileHandler.doRollover': gen_rollover,
}
