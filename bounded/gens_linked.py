"""input generators of the bounded tier for contracts/linked.py (C18): real modules with limit parameters"""
import itertools

C = None
GRID = [-5.0, -1.0, -0.5, 0.0, 0.5, 1.0, 2.0, 5.0, 10.0]


def _classes():
    from frappy.modules import Drivable, Parameter, Writable
    from frappy.params import Limit
    from frappy.datatypes import FloatRange

    class WithLimits(Drivable):
        target = Parameter('t', FloatRange(-10, 10), default=0)
        target_limits = Limit()

    class WithMinMax(Drivable):
        target = Parameter('t', FloatRange(-10, 10), default=0)
        target_min = Limit()
        target_max = Limit()

    class WithMax(Drivable):
        target = Parameter('t', FloatRange(-10, 10), default=0)
        target_max = Limit()

    class WithMin(Writable):
        target = Parameter('t', FloatRange(-10, 10), default=0)
        other = Parameter('o', FloatRange(-10, 10), default=0, readonly=False)
        other_min = Limit()

    class Plain(Writable):
        target = Parameter('t', FloatRange(-10, 10), default=0)
    return WithLimits, WithMinMax, WithMax, WithMin, Plain


def gen_checkLimits(tier, rng):
    """modules with <p>_limits / <p>_min+<p>_max / one-sided / no limits; limits and value over a grid incl. 0 and the bounds"""
    from bounded import nodelib
    WithLimits, WithMinMax, WithMax, WithMin, Plain = _classes()
    srv = nodelib.Srv([nodelib.mod('a', WithLimits), nodelib.mod('b', WithMinMax), nodelib.mod('c', WithMax),
                       nodelib.mod('d', WithMin), nodelib.mod('e', Plain)])
    m = srv.secnode.modules
    grid = GRID if tier == 'quick' else GRID + [-10.0, 10.0, 1e-9, -1e-9, 3.0]
    for lo, hi in itertools.product(grid, repeat=2):
        if lo <= hi:
            m['a'].target_limits = (lo, hi)
        # single limits may be inverted: the check has to refuse then
        m['b'].target_min, m['b'].target_max = lo, hi
        m['c'].target_max = hi
        m['d'].other_min = lo
        for v in grid:
            for name, pname in (('a', 'target'), ('b', 'target'), ('c', 'target'), ('d', 'other'), ('e', 'target'), ('d', 'target')):
                yield dict(label=f'{type(m[name]).__mro__[1].__name__} limits=({lo},{hi}) checkLimits({v},{pname!r})', self=m[name],
                           args={'value': v, 'pname': pname})


def _layouts(writes):
    from frappy.modules import Module, Parameter
    from frappy.params import Limit
    from frappy.datatypes import FloatRange
    from frappy.errors import RangeError

    class Base(Module):
        """a driver with its own check hook, no limits"""
        target = Parameter('t', FloatRange(-100, 100), readonly=False, default=0)

        def check_target(self, value):
            if (value * 2) % 1:
                raise RangeError('multiples of 0.5 only')

        def write_target(self, value):
            writes.append((self.name, value))
            return value

    class LimitedSub(Base):
        """limits added in a subclass of a class that has a hook"""
        target_min = Limit()
        target_max = Limit()

    class PairSub(Base):
        target_limits = Limit()

    class Flat(Module):
        target = Parameter('t', FloatRange(-100, 100), readonly=False, default=0)
        target_min = Limit()
        target_max = Limit()

        def write_target(self, value):
            writes.append((self.name, value))
            return value

    class FlatSub(Flat):
        """hook added below the class that declares the limits"""
        def check_target(self, value):
            if value == 7:
                raise RangeError('no sevens')

    class Mixin:
        target_limits = Limit()

    class Mixed(Mixin, Base):
        pass

    class MinMaxMixin:
        target_min = Limit()
        target_max = Limit()

    class PairMix(Base, Mixin):
        """the hook comes first in the MRO, the limits from a mixin behind it"""
    return dict(base=Base, limsub=LimitedSub, pairsub=PairSub, flat=Flat, flatsub=FlatSub, mixed=Mixed, pairmix=PairMix)


def _hook_refuses(specifier, data):
    """what the check_target hooks of the layouts refuse: Base (and its subclasses) non-multiples of 0.5, FlatSub the value 7"""
    mod, _, par = specifier.partition(':')
    if par != 'target' or not isinstance(data, (int, float)):
        return False
    if mod in ('base', 'limsub', 'pairsub', 'mixed', 'pairmix'):
        return bool((data * 2) % 1)
    if mod == 'flatsub':
        return data == 7
    return False


def gen_change(tier, rng):
    """change requests over the wire on 7 class layouts (limits / hooks declared in base, subclass, mixin) x limits over a grid
    x target values inside, on and outside the limits; also writes to the limit parameters themselves (incl. inverted pairs)"""
    from bounded import nodelib
    writes = []
    lay = _layouts(writes)
    srv = nodelib.Srv([nodelib.mod(n, c) for n, c in lay.items()])
    d = srv.dispatcher
    conn = nodelib.Conn()
    d.add_connection(conn)
    grid = [-5.0, 0.0, 0.5, 1.0, 5.0] if tier == 'quick' else [-5.0, -1.0, 0.0, 0.5, 1.0, 2.0, 5.0, 7.0]
    values = [-6.0, -5.0, -0.5, -0.25, 0.0, 0.25, 0.5, 0.75, 1.0, 4.5, 4.75, 5.0, 5.5, 7.0, 50.0]
    for name, cls in lay.items():
        m = srv.secnode.modules[name]
        for lo, hi in itertools.product(grid, repeat=2):
            if hasattr(m, 'target_limits'):
                if lo > hi:
                    continue
                m.target_limits = (lo, hi)
            elif hasattr(m, 'target_min'):
                m.target_min, m.target_max = lo, hi
            elif (lo, hi) != (grid[0], grid[0]):
                continue
            for v in values:
                yield dict(label=f'{name} limits=({lo},{hi}) change {name}:target {v}', self=d,
                           args={'conn': conn, 'specifier': f'{name}:target', 'data': v}, ghosts={'driver_writes': writes, 'HOOK_REFUSES': _hook_refuses})
        if hasattr(m, 'target_limits'):
            for pair in ([1, 5], [5, 1], [0, 0], [-200, 0]):
                yield dict(label=f'{name} change {name}:target_limits {pair}', self=d,
                           args={'conn': conn, 'specifier': f'{name}:target_limits', 'data': pair}, ghosts={'driver_writes': writes, 'HOOK_REFUSES': _hook_refuses})


def _struct_classes():
    from frappy.core import FloatRange, Module, Parameter
    from frappy.extparams import StructParam

    def members():
        return dict(p=Parameter('p', FloatRange()), i=Parameter('i', FloatRange()), d=Parameter('d', FloatRange()))

    class Combined(Module):
        """combined read/write methods for the struct"""
        ctrlpars = StructParam('s', members(), 'pid_', readonly=False)
        _store = {'p': 0.0, 'i': 0.0, 'd': 0.0}
        fail = None

        def read_ctrlpars(self):
            if self.fail == 'read':
                raise ValueError('scripted read failure')
            return dict(self._store)

        def write_ctrlpars(self, value):
            if self.fail == 'write':
                raise ValueError('scripted write failure')
            self._store = dict(value)
            return self.read_ctrlpars()

    class PerMember(Module):
        """generated struct functions: read/write methods per member"""
        ctrlpars = StructParam('s', members(), readonly=False)
        _vals = None
        fail = None

        def _rd(self, k):
            if self.fail == ('read', k):
                raise ValueError('scripted read failure')
            return (self._vals or {}).get(k, 0.0)

        def _wr(self, k, v):
            if self.fail == ('write', k):
                raise ValueError('scripted write failure')
            self._vals = dict(self._vals or {}, **{k: v})
            return v

        def read_p(self):
            return self._rd('p')

        def write_p(self, v):
            return self._wr('p', v)

        def read_i(self):
            return self._rd('i')

        def write_i(self, v):
            return self._wr('i', v)

        def read_d(self):
            return self._rd('d')

        def write_d(self, v):
            return self._wr('d', v)
    return [(Combined, {'p': 'pid_p', 'i': 'pid_i', 'd': 'pid_d'}), (PerMember, {'p': 'p', 'i': 'i', 'd': 'd'})]


def gen_struct(tier, rng):
    """struct parameter with 3 members, with combined struct methods and with per-member methods: random histories (length 10) of
    whole-struct write / read, single-member write / read, driver-side assignment of a member or of the struct, each optionally with a
    scripted failure of one member access"""
    import types
    from bounded import nodelib
    for (cls, attrs) in _struct_classes():
        for h in range(30 if tier == 'quick' else 300):
            srv = types.SimpleNamespace(dispatcher=types.SimpleNamespace(announce_update=lambda m, p: None),
                                        secnode=types.SimpleNamespace(equipment_id='verif', name='node'))
            m = cls.__new__(cls)
            m.__init__('m', nodelib.quiet_logger(), {'description': ''}, srv)
            m.write_ctrlpars({'p': 1.0, 'i': 2.0, 'd': 3.0})
            for step in range(10):
                # (with combined struct methods the driver reports changes through the struct, not through single members)
                kind = rng.choice(['wstruct', 'rstruct', 'wmember', 'rmember'] + (['drv_member'] if cls.__name__ == 'PerMember' else ['drv_struct']))
                k = rng.choice(['p', 'i', 'd'])
                v = float(rng.randint(0, 9))
                failing = rng.random() < 0.3
                if cls.__name__ == 'Combined':
                    m.fail = {'wstruct': 'write', 'rstruct': 'read'}.get(kind) if failing else None
                else:
                    m.fail = (('write' if kind.startswith('w') else 'read'), rng.choice(['p', 'i', 'd'])) if failing else None

                def op(m=m, kind=kind, k=k, v=v, attrs=attrs):
                    if kind == 'wstruct':
                        return m.write_ctrlpars({'p': v, 'i': v + 1, 'd': v + 2})
                    if kind == 'rstruct':
                        return m.read_ctrlpars()
                    if kind == 'wmember':
                        return getattr(m, 'write_' + attrs[k])(v)
                    if kind == 'rmember':
                        return getattr(m, 'read_' + attrs[k])()
                    if kind == 'drv_member':
                        setattr(m, attrs[k], v)
                        return None
                    m.ctrlpars = {'p': v, 'i': v, 'd': v}
                    return None
                yield dict(label=f'{cls.__name__} history {h} step {step}: {kind} {k}={v} fail={m.fail}', self=None, args={}, call=op,
                           ghosts={'module': m, 'struct_name': 'ctrlpars', 'member_attrs': attrs,
                                   'touched': k if kind in ('wmember', 'rmember', 'drv_member') else None})
                m.fail = None


def gen_floatenum(tier, rng):
    """float parameter bound to an enum index, label sets {3 ranges, 4 ranges with explicit indices, descending values}, devices that
    store the requested index / coerce it (upwards to the next even index, or to a fixed one) : random histories (length 8) of float
    writes (on, between and outside the allowed values), index writes, index reads, driver-side index assignments"""
    import types
    from bounded import nodelib
    from frappy.core import Module, Parameter
    from frappy.extparams import FloatEnumParam
    label_sets = [['500uV', '20mV', '1V'], [(1, '1mA'), (2, '10mA'), (5, '100mA'), (6, '1A')], ['1m', '1mm', '1um']]
    units = ['V', 'A', 'm']
    for labels, unit in zip(label_sets, units):
        for coerce in ('none', 'up', 'fixed'):
            class Dev(Module):
                rng_ = FloatEnumParam('range', labels, unit, readonly=False)
                _dev = None
                asked = None

                def read_rng__idx(self):
                    return self._dev if self._dev is not None else self.rng__idx

                def write_rng__idx(self, value):
                    self.asked.append(value)
                    self._dev = self._coerce(int(value))
                    return self._dev
            codes = sorted(Dev.rng_.valuedict)
            Dev._coerce = {'none': lambda self, i: i, 'up': lambda self, i, codes=codes: codes[min(len(codes) - 1, codes.index(i) + codes.index(i) % 2)],
                           'fixed': lambda self, i, codes=codes: codes[-1]}[coerce]
            vals = sorted(Dev.rng_.valuedict.values())
            offers = vals + [(a + b) / 2 for a, b in zip(vals, vals[1:])] + [vals[0] * 1.01, vals[-1] * 0.99, vals[0] + (vals[1] - vals[0]) * 0.4]
            for h in range(12 if tier == 'quick' else 120):
                srv = types.SimpleNamespace(dispatcher=types.SimpleNamespace(announce_update=lambda m, p: None),
                                            secnode=types.SimpleNamespace(equipment_id='verif', name='node'))
                m = Dev.__new__(Dev)
                m.__init__('m', nodelib.quiet_logger(), {'description': ''}, srv)
                m.asked = []
                for step in range(8):
                    kind = rng.choice(['wfloat', 'wfloat', 'widx', 'ridx', 'drv_idx', 'rfloat'])
                    v = rng.choice(offers)
                    i = rng.choice(codes)
                    m.asked = []

                    def op(m=m, kind=kind, v=v, i=i):
                        if kind == 'wfloat':
                            return m.write_rng_(v)
                        if kind == 'widx':
                            return m.write_rng__idx(i) if False else getattr(m, 'write_rng__idx')(i)
                        if kind == 'ridx':
                            return m.read_rng__idx()
                        if kind == 'rfloat':
                            return m.read_rng_() if hasattr(m, 'read_rng_') else m.rng_
                        m.rng__idx = i
                        return None
                    yield dict(label=f'labels={labels} device={coerce} history {h} step {step}: {kind} v={v} i={i}', self=None, args={}, call=op,
                               ghosts={'module': m, 'float_name': 'rng_', 'idx_name': 'rng__idx',
                                       'requested': v if kind == 'wfloat' else None, 'asked_idx': m.asked})


GENS = {'FloatEnumParam.__set_name__': gen_floatenum, 'StructParam.__set_name__': gen_struct, 'Module.checkLimits': gen_checkLimits, 'Dispatcher.handle_change': gen_change}
