"""input generators of the bounded tier for contracts/updates.py (C05): histories of announceUpdate on real modules"""
C = None


def _module(sent, omit=0):
    from bounded import nodelib
    from frappy.modules import Readable, Parameter
    from frappy.datatypes import FloatRange, StringType, IntRange, StructOf, EnumType
    import types

    class Dev(Readable):
        value = Parameter('v', FloatRange(0, 10), default=0)
        text = Parameter('t', StringType(), default='')
        cnt = Parameter('c', IntRange(0, 5), default=0)
        st = Parameter('s', StructOf(a=IntRange(0, 3), b=StringType()), default={'a': 0, 'b': ''})
        hidden = Parameter('h', FloatRange(), default=0, export=False)

    def update_callback(m, pobj):
        # the dispatcher side: records what a message built now would carry, and whether the update lock is held
        sent.append((m, pobj.name, pobj.value, pobj.readerror, pobj.timestamp, bool(m.updateLock._is_owned())))
    srv = types.SimpleNamespace(dispatcher=types.SimpleNamespace(announce_update=update_callback),
                                secnode=types.SimpleNamespace(equipment_id='verif', name='node'))
    m = Dev('m', nodelib.quiet_logger(), {'description': 'd', 'omit_unchanged_within': omit}, srv)
    m.updateCallback = update_callback
    return m


def gen_history(tier, rng):
    """random histories (length 12) of announceUpdate on 4 exported parameters of different datatypes: valid values, repeated values,
    invalid values (-> readerror), explicit errors (repeated and changing), explicit and missing timestamps, validate on/off;
    parameter callbacks that raise"""
    from frappy.errors import CommunicationFailedError, HardwareError
    vals = {'value': [0.0, 1.5, 1.5, 1.5000000001, 1.50000001, 1.5000001, 1.6, 11.0, 'x', None], 'text': ['', 'a', 'a', 5], 'cnt': [0, 1, 1, 9, 2.5], 'st': [{'a': 1, 'b': 'x'}, {'a': 1, 'b': 'x'}, {'a': 9}, 5]}
    errs = [None, None, None, CommunicationFailedError('x'), CommunicationFailedError('x'), HardwareError('y'), ValueError('plain')]
    for h in range(40 if tier == 'quick' else 400):
        sent = []
        m = _module(sent, omit=rng.choice([0, 0.5, 5]))
        m.addCallback('value', lambda *a: (_ for _ in ()).throw(RuntimeError('callback failed')))
        t = 1000.0
        for step in range(12):
            pname = rng.choice(list(vals))
            err = rng.choice(errs)
            value = None if err is not None and rng.random() < 0.5 else rng.choice(vals[pname])
            validate = True
            if err is None and rng.random() < 0.3:
                try:
                    value = m.parameters[pname].datatype(value)
                    validate = False
                except Exception:
                    pass
            ts = rng.choice([None, t, t + 0.01, t + 0.3, t + 5])
            t += rng.choice([0, 0.01, 1])
            if err is not None:
                err = type(err)(*err.args)         # a fresh exception object each time (repeated errors are equal, not identical)
            yield dict(label=f'history {h} step {step}: announceUpdate({pname!r}, {value!r}, {err!r}, {ts}, validate={validate})', self=m,
                       args={'pname': pname, 'value': value, 'err': err, 'timestamp': ts, 'validate': validate}, ghosts={'sent': sent})


GENS = {'Module.announceUpdate': gen_history}
