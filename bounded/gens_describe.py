"""input generators of the bounded tier for contracts/describe.py (C06): real nodes, every name of a name universe in every request"""
import json

C = None


def _node():
    from bounded import nodelib
    from frappy.modules import Drivable, Readable, Parameter, Command, Module
    from frappy.datatypes import FloatRange, IntRange, StringType, EnumType, ArrayOf, StructOf

    class Dev(Drivable):
        value = Parameter('v', FloatRange(0, 10), default=1)
        target = Parameter('t', FloatRange(0, 10), default=1)
        text = Parameter('custom, exported as _text', StringType(), default='', readonly=False)
        fixed = Parameter('constant', IntRange(), constant=7)
        zero = Parameter('falsy constant, different default', IntRange(), constant=0, default=4)
        blank = Parameter('falsy constant, different default', StringType(), constant='', default='unnamed')
        off = Parameter('falsy constant', FloatRange(), constant=0.0, default=3.0)
        hidden = Parameter('not exported', FloatRange(), default=0, readonly=False, export=False)
        ro = Parameter('readonly custom', FloatRange(), default=2)
        arr = Parameter('variable-length array, currently full', ArrayOf(FloatRange(0, 10), 0, 3), default=(1, 2, 3), readonly=False)
        pid = Parameter('struct', StructOf(p=FloatRange(0, 10), i=FloatRange(0, 10), optional=['i']), default={'p': 1, 'i': 2}, readonly=False)
        ex = Parameter('custom, export=True given again in the configuration', FloatRange(), default=2, readonly=False)
        late = Parameter('custom, unexported in the class, exported by the configuration', FloatRange(), default=2, readonly=False, export=False)

        def read_value(self):
            return self.target

        def write_target(self, v):
            return v

        @Command(IntRange(0, 5), result=IntRange())
        def twice(self, x):
            """double"""
            return 2 * x

        @Command(export=False)
        def secret(self):
            """hidden command"""

    class Quiet(Readable):
        """a module that is not exported at all"""
    from frappy.config import Param
    return nodelib.Srv([nodelib.mod('m', Dev, ro=Param(export='renamed'), text=Param(export='_text'), ex=Param(export=True), late=Param(export=True)), nodelib.mod('n', Readable),
                        nodelib.mod('q', Quiet, export=False)])


NAMES = ['renamed', 'value', 'target', 'text', '_text', 'fixed', '_fixed', '_zero', '_blank', '_off', 'zero', 'hidden', '_hidden', 'ro', '_ro', 'twice', '_twice', 'secret', '_secret',
         '_arr', '_pid', 'ex', '_ex', 'late', '_late', 'stop', 'status', 'pollinterval', 'nosuch', '', 'accessibles', 'name', 'True', '_value']
MODS = ['m', 'n', 'q', 'x', '']


def gen_requests(tier, rng):
    """read / change / do / activate for every (module, name) of 5 module names x 27 accessible names (wire names, attribute names,
    unexported and unknown ones); the description is taken once from the same node"""
    from bounded import nodelib
    srv = _node()
    d = srv.dispatcher
    conn = nodelib.Conn()
    d.add_connection(conn)
    descr = json.loads(json.dumps(d.handle_describe(conn, None, None)[2]))
    data = {'read': None, 'change': 1, 'do': None, 'activate': None}
    for action in ('read', 'change', 'do', 'activate'):
        for mod in MODS:
            for name in NAMES + [None]:
                spec = mod if name is None else f'{mod}:{name}'
                payloads = [data[action]] if action != 'do' else [None, 2]
                if action == 'change':
                    payloads = [1, [1], [], [1, 2], [1, 2, 3, 4], [11], 'x', 11, 2.5, True, None, {'p': 3}, {'p': 3, 'i': 4}, {'i': 4}, {'p': 11}]
                for payload in payloads:
                    if 'm' in srv.secnode.modules:
                        srv.secnode.modules['m'].parameters['arr'].value = (1.0, 2.0, 3.0)
                    d._subscriptions.clear()
                    d._active_connections.clear()
                    msg = (action, spec, payload)
                    yield dict(label=f'{action} {spec!r} {payload!r}', self=d, args={'conn': conn, 'msg': msg}, ghosts={'description': descr})


def gen_describe(tier, rng):
    """description of the node, twice"""
    from bounded import nodelib
    srv = _node()
    conn = nodelib.Conn()
    for _ in range(2):
        yield dict(label='describe', self=srv.dispatcher, args={'conn': conn, 'specifier': None, 'data': None})


GENS = {'Dispatcher.handle_request': gen_requests, 'Dispatcher.handle_describe': gen_describe}
