"""Real frappy nodes built in-process for the bounded tier (no sockets, no poll threads unless asked).

Everything here is harness: the classes instantiated are the real ones of the tree under test."""
import logging
import threading

from frappy.config import Mod, Param
from frappy.lib import generalConfig
from frappy.server import Server
import frappy.secnode

generalConfig.testinit(omit_unchanged_within=0)
frappy.secnode.get_version = lambda *a, **k: 'verif'      # git describe / RELEASE-VERSION are not available


class ListHandler(logging.Handler):
    def __init__(self):
        super().__init__()
        self.records = []

    def emit(self, record):
        self.records.append(record)


def quiet_logger(name='verif'):
    log = logging.getLogger(name)
    log.setLevel(logging.CRITICAL + 1)
    log.propagate = False
    return log


class Srv(Server):
    """Server with the configuration given as objects; modules are created and initialised, not started"""
    def __init__(self, mods, node_opts=None, log=None, start=False):     # pylint: disable=super-init-not-called
        self.log = log or quiet_logger()
        self.name = 'node'
        self.node_cfg = dict({'cls': 'frappy.protocol.dispatcher.Dispatcher', 'name': 'node',
                              'description': 'bounded harness node', 'equipment_id': 'verif.node'}, **(node_opts or {}))
        self._testonly = not start
        self._cfgfiles = 'main'
        self.module_cfg = {}
        for m in mods:
            m = Mod(**m) if not isinstance(m, Mod) else m
            m = dict(m)
            self.module_cfg[m.pop('name')] = m
        self.detailed_errors = False
        self._processCfg()


def mod(name, cls, description='d', **kw):
    return Mod(name, cls, description, **kw)


class Conn:
    """a fake connection as the dispatcher sees it"""
    def __init__(self, n=0):
        self.n = n
        self.out = []

    def send_reply(self, msg):
        self.out.append(msg)

    def __repr__(self):
        return f'conn{self.n}'


class FakeSocket:
    """scripted recv(): the given chunks, then b'' (peer closed); sendall collects"""
    def __init__(self, chunks):
        self.chunks = list(chunks)
        self.sent = []

    def settimeout(self, t):
        pass

    def recv(self, n):
        if not self.chunks:
            return b''
        return self.chunks.pop(0)

    def sendall(self, data):
        self.sent.append(bytes(data))

    def shutdown(self, how):
        pass

    def close(self):
        pass
