"""input generators of the bounded tier for contracts/client.py (C12): callback lists with self-unregistering callbacks"""
import itertools

C = None


def gen_callback(tier, rng):
    """callback lists of length 0..4 from {plain, raising, one-shot (UnregisterCallback), unregisters itself via the API, unregisters
    an earlier / a later one}, every arrangement, for key None / module / (module, parameter)"""
    from frappy.client import ProxyClient, UnregisterCallback
    kinds = ['plain', 'raise', 'oneshot', 'self_unreg']
    for n in range(0, 5):
        for combo in itertools.product(kinds, repeat=n):
            for key in (None, 'm', ('m', 'p')) if tier != 'quick' or n < 4 else (None,):
                pc = ProxyClient()
                calls, funcs, one_shot = [], [], []
                for i, k in enumerate(combo):
                    def make(i=i, k=k):
                        def unhandledMessage(*a):
                            calls.append(funcs[i])
                            if k == 'raise':
                                raise ValueError('callback failed')
                            if k == 'oneshot':
                                raise UnregisterCallback()
                            if k == 'self_unreg':
                                pc.unregister_callback(key, unhandledMessage=funcs[i])
                        return unhandledMessage
                    f = make()
                    funcs.append(f)
                    if k in ('oneshot', 'self_unreg'):
                        one_shot.append(f)
                    pc.callbacks['unhandledMessage'].setdefault(key, []).append(f)
                yield dict(label=f'{combo} key={key!r}', self=pc, args={'key': key, 'cbname': 'unhandledMessage'},
                           call=lambda pc=pc, key=key: pc.callback(key, 'unhandledMessage', 'a', 'b', 'c'),
                           ghosts={'cb_calls': calls, 'registered_before': list(funcs), 'one_shot': one_shot, 'removes_other': []})


GENS = {'ProxyClient.callback': gen_callback}
