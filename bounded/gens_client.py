"""input generators of the bounded tier for contracts/client.py (C12): callback lists with self-unregistering callbacks"""
import itertools

C = None


def gen_callback(tier, rng):
    """callback lists of length 0..4 from {plain, raising, one-shot (UnregisterCallback), unregisters itself via the API, unregisters
    an earlier / a later one}, every arrangement, for key None / module / (module, parameter)"""
    from frappy.client import ProxyClient, UnregisterCallback
    kinds = ['plain', 'raise', 'oneshot', 'self_unreg']
    for n in range(0, 5):
        for combo in itertools.product(kinds, repeat=n):
            for key in (None, 'm', ('m', 'p')) if tier != 'quick' or n < 4 else (None,):
                pc = ProxyClient()
                calls, funcs, one_shot = [], [], []
                for i, k in enumerate(combo):
                    def make(i=i, k=k):
                        def unhandledMessage(*a):
                            calls.append(funcs[i])
                            if k == 'raise':
                                raise ValueError('callback failed')
                            if k == 'oneshot':
                                raise UnregisterCallback()
                            if k == 'self_unreg':
                                pc.unregister_callback(key, unhandledMessage=funcs[i])
                        return unhandledMessage
                    f = make()
                    funcs.append(f)
                    if k in ('oneshot', 'self_unreg'):
                        one_shot.append(f)
                    pc.callbacks['unhandledMessage'].setdefault(key, []).append(f)
                yield dict(label=f'{combo} key={key!r}', self=pc, args={'key': key, 'cbname': 'unhandledMessage'},
                           call=lambda pc=pc, key=key: pc.callback(key, 'unhandledMessage', 'a', 'b', 'c'),
                           ghosts={'cb_calls': calls, 'registered_before': list(funcs), 'one_shot': one_shot, 'removes_other': []})


def gen_register(tier, rng):
    """1..3 callbacks of kinds {updateEvent, updateItem, nodeStateChange, unhandledMessage} registered in ONE call, each either
    persistent or one-shot (raises UnregisterCallback on its immediate call), for key None / module / (module, parameter), with an
    empty and with a filled cache"""
    import itertools
    from frappy.client import ProxyClient, UnregisterCallback, CacheItem
    names = ['updateEvent', 'updateItem', 'nodeStateChange', 'unhandledMessage']
    for n in (1, 2, 3):
        for combo in itertools.permutations(names, n):
            for shots in itertools.product([False, True], repeat=n):
                for key in (None, 'm', ('m', 'p')):
                    for filled in (False, True):
                        pc = ProxyClient()
                        pc.online, pc.state = True, 'connected'
                        if filled:
                            pc.cache[('m', 'p')] = CacheItem(1.5, 10.0, None)
                            pc.cache[('m', 'q')] = CacheItem(2.5, 11.0, None)
                            pc.cache[('n', 'p')] = CacheItem(3.5, 12.0, None)
                        calls, given, kw, expect = [], [], {}, {}
                        ncache = {None: 3, 'm': 2, ('m', 'p'): 1}[key] if filled else 0
                        for cbname, shot in zip(combo, shots):
                            def make(cbname=cbname, shot=shot):
                                def cb(*a):
                                    calls.append((cb, cbname, a))
                                    if shot:
                                        raise UnregisterCallback()
                                return cb
                            f = make()
                            kw[cbname] = f
                            immediate = ncache if cbname in ('updateEvent', 'updateItem') else (1 if cbname == 'nodeStateChange' else 0)
                            expect[cbname] = immediate
                            # a one-shot callback that is never called at registration stays registered
                            given.append((cbname, f, shot and immediate > 0))
                        yield dict(label=f'{list(zip(combo, shots))} key={key!r} cache={"filled" if filled else "empty"}', self=pc,
                                   args={'key': key}, call=lambda pc=pc, key=key, kw=kw: pc.register_callback(key, **kw),
                                   ghosts={'cb_calls': calls, 'given': given, 'expect_calls': expect})


class _ScriptIO:
    """a connection delivering the scripted lines, then closing"""
    def __init__(self, lines):
        self.lines = list(lines)

    def readline(self, timeout=None):
        from frappy.errors import CommunicationFailedError
        from frappy.lib.asynconn import ConnectionClosed
        if not self.lines:
            raise ConnectionClosed('end of script')
        return self.lines.pop(0)

    def shutdown(self):
        pass

    def disconnect(self):
        pass


def gen_rx(tier, rng):
    """message scripts of length 1..3 (thorough: 4) over {update, error_update, reply, changed, error_read, error_change, pong, unknown ident}
    x {float parameter, custom string parameter, module-only shorthand} x timestamp {absent, past, 1 h in the future} x {importable,
    not importable} values, processed by the real reader loop on a scripted connection"""
    import time
    from frappy.client import SecopClient
    from frappy.datatypes import FloatRange, StringType
    from frappy.protocol.interface import encode_msg_frame
    known = {'m:value': ('m', 'value'), 'm:target': ('m', 'target'), 'm:_label': ('m', 'label')}
    past, future = 1000.0, time.time() + 3600
    def msgs(ident, good, bad):
        out = []
        for t in (None, past, future):
            q = {} if t is None else {'t': t}
            out += [('update', ident, [good, q]), ('reply', ident, [good, q]), ('error_update', ident, ['HardwareError', 'broken', q]),
                    ('error_read', ident, ['CommunicationFailed', 'silent', q])]
        out += [('changed', ident, [good, {'t': future}]), ('update', ident, [bad, {'t': past}]), ('error_change', ident, ['RangeError', 'x', {}])]
        return out
    pool = msgs('m:value', 1.5, 'x') + msgs('m:_label', 'abc', 5) + msgs('m', 2.5, None) + \
        [('pong', 'tok', [None, {'t': past}]), ('update', 'zz:value', [1, {}]), ('changed', 'm', [3.5, {}])]
    n_max = 3 if tier == 'quick' else 4
    scripts = [[m] for m in pool]
    for n in range(2, n_max + 1):
        scripts += [[rng.choice(pool) for _ in range(n)] for _ in range(150 if tier == 'quick' else 600)]
    for script in scripts:
        c = SecopClient('fake://x', None)
        c.activate = False
        c.modules = {'m': {'parameters': {'value': {'datatype': FloatRange(0, 10)}, 'target': {'datatype': FloatRange(0, 10)},
                                          'label': {'datatype': StringType()}}}}
        c.internal = dict(known)
        c.io = _ScriptIO([encode_msg_frame(*m) for m in script])
        c._running = True
        item_calls = []
        c.register_callback(None, updateItem=lambda module, param, item: item_calls.append(((module, param), item)))
        c.callbacks['unhandledMessage'][None] = [lambda *a: None]
        c.callbacks['handleError'] = {None: [lambda *a: None]}
        yield dict(label=' ; '.join(f'{a} {i} {d}' for a, i, d in script), self=c, args={},
                   call=lambda c=c: c._SecopClient__rxthread(),
                   ghosts={'script': script, 'known': known, 't_start': time.time(), 'cache_view': c.cache, 'item_calls': item_calls})


GENS = {'SecopClient.__rxthread': gen_rx, 'ProxyClient.register_callback': gen_register, 'ProxyClient.callback': gen_callback}
