"""Bounded stand-in / cross-check for the datatype properties (C01, C02, C03) - labelled bounded,
never counted as proved.  Run by /venv/bin/python with PYTHONPATH=/repo:/verif.

It evaluates the *same contract text* (spec functions of contracts/datatypes.py) natively on the
real functions over an enumerated space: datatype trees to a stated depth built from boundary
catalogues x candidate values (every JSON kind, boundary / just-outside numbers, huge ints that a
double cannot hold, wrong lengths, None / NaN / Infinity) x previous values.

stdin: {"tier": "quick"|"thorough", "seed": int, "args": {"prop": "C01"|"C02"|"C03"}}
stdout: JSON {evaluations, distinct, bound, exhaustive, samples, violations: [...]}
"""
import importlib.util
import itertools
import json
import math
import os
import random
import sys

VERIF = os.path.dirname(os.path.dirname(os.path.abspath(__file__)))
sys.path.insert(0, VERIF)


def load(path):
    spec = importlib.util.spec_from_file_location('contracts_datatypes', path)
    mod = importlib.util.module_from_spec(spec)
    spec.loader.exec_module(mod)
    return mod


C = load(os.path.join(VERIF, 'contracts', 'datatypes.py'))
from frappy import datatypes as D          # noqa: E402
ImmutableDict = D.ImmutableDict
from frappy.errors import BadValueError    # noqa: E402
from frappy.lib.enum import Enum           # noqa: E402

INF, NAN = float('inf'), float('nan')
FMAX = sys.float_info.max
BIG = 2 ** 53 + 1


def leaves():
    e = Enum('e', a=1, b=2, z=0)
    return [
        ('int', lambda: D.IntRange(-3, 3)), ('int1', lambda: D.IntRange(5, 5)),
        ('int64', lambda: D.IntRange(-(2 ** 63), 2 ** 63 - 1)), ('intbig', lambda: D.IntRange(BIG, BIG + 2)),
        ('dbl', lambda: D.FloatRange(-1.5, 2.5)), ('dblu', lambda: D.FloatRange()),
        ('dbl1', lambda: D.FloatRange(1.0, 1.0, absolute_resolution=0.0, relative_resolution=0.0)),
        ('dblabs', lambda: D.FloatRange(0.0, 10.0, absolute_resolution=0.5)),
        ('scaled', lambda: D.ScaledInteger(0.1, 0, 0.3)), ('scaled2', lambda: D.ScaledInteger(0.5, -1, 1)),
        ('scaled3', lambda: D.ScaledInteger(0.01, 0, 0.29)), ('scaledbig', lambda: D.ScaledInteger(2.0, 0, 2.0 ** 60)),
        ('bool', lambda: D.BoolType()), ('enum', lambda: D.EnumType(e)),
        # member names that read as python literals of a DIFFERENT code (range switches labelled '1', '2', ... are common)
        ('enumlit', lambda: D.EnumType('lit', **{'1': 0, '2': 1, '10': 2, 'True': 5, 'None': 7})),
        ('str', lambda: D.StringType(1, 3)), ('stru', lambda: D.StringType(0, 5, isUTF8=True)),
        ('strmin', lambda: D.StringType(3, D.UNLIMITED)), ('blob', lambda: D.BLOBType(1, 3)), ('blob0', lambda: D.BLOBType(0, 0)),
    ]


def trees(depth, rng, limit):
    """(name, factory) of datatype trees up to `depth` container levels"""
    lv = leaves()
    out = list(lv)
    level = lv
    for d in range(depth):
        nxt = []
        for n, f in level:
            nxt.append((f'array({n})', lambda f=f: D.ArrayOf(f(), 0, 2)))
            nxt.append((f'array1({n})', lambda f=f: D.ArrayOf(f(), 1, 1)))
        for (n1, f1), (n2, f2) in itertools.islice(itertools.product(level, lv), 0, None, 7):
            nxt.append((f'tuple({n1},{n2})', lambda f1=f1, f2=f2: D.TupleOf(f1(), f2())))
            nxt.append((f'struct({n1},{n2}?)', lambda f1=f1, f2=f2: D.StructOf(a=f1(), b=f2(), optional=['b'])))
        for n, f in level[::5]:
            nxt.append((f'tuple1({n})', lambda f=f: D.TupleOf(f())))         # one member: '(x,)' in the text form
        nxt.append(('limits(int)', lambda: D.LimitsType(D.IntRange(-3, 3))))
        nxt.append(('limits(dbl)', lambda: D.LimitsType(D.FloatRange(-1.5, 2.5))))
        lim = [t for t in nxt if t[0].startswith(('limits(', 'tuple1('))][:8]
        if len(nxt) > limit:
            nxt = rng.sample([t for t in nxt if t not in lim], limit - len(lim)) + lim
        out.extend(nxt)
        level = nxt
    return out


SCALARS = [None, True, False, 0, 1, -1, 2, 3, 4, 5, -3, -4, BIG, BIG + 1, 2 ** 63 - 1, 2 ** 63, 2 ** 64, 10 ** 18 + 1, -(2 ** 63),
           10 ** 400, 0.0, 1.0, 0.5, -1.5, 2.5, 2.5000001, 2.6, -1.6, 0.1, 0.3, 0.30000000000000004, 0.29, 0.35, 0.25, 1e-320,
           1e308, FMAX, -FMAX, INF, -INF, NAN, 2.0 ** 60, 1.00000001, '', 'a', 'abc', 'abcd', '5', '1.5', 'a\0b', 'ä', 'z', ' a', 'a ', ' ab ', 'a\n', '\ta', ' ', '"q"', "it's",
           b'', b'a', b'abcd', b'\x00\xff', 'QQ==', '!!!!', 'QR==']


def candidates(dt, rng, depth=0):
    """values offered to a datatype: every kind, plus shaped containers built from member candidates"""
    vals = list(SCALARS)
    if isinstance(dt, D.EnumType):
        vals += list(dt._enum.members) + ['b', 7]
    if isinstance(dt, D.ArrayOf):
        inner = candidates(dt.members, rng, depth + 1)
        good = [v for v in inner if _ok(dt.members, v)][:4]
        vals += [[], (), [inner[0]], tuple(good[:1]), good[:2], tuple(good[:2]), good[:3], [good[0], 'x'] if good else ['x'],
                 'ab', {'a': 1}, b'ab', [None]]
        vals += [[x] for x in inner if isinstance(x, ImmutableDict)][-3:]
    elif isinstance(dt, D.TupleOf):
        per = [[v for v in candidates(m, rng, depth + 1) if _ok(m, v)][:3] or [0] for m in dt.members]
        vals += [list(p) for p in itertools.islice(itertools.product(*per), 6)]
        vals += [tuple(p) for p in itertools.islice(itertools.product(*per), 3)]
        vals += [[], [per[0][0]], [per[0][0]] * (len(per) + 1), 'ab', {'a': 1}, [None] * len(per), [3, 1], [1, 3], [2.5, -1.5]]
    elif isinstance(dt, D.StructOf):
        per = {k: [v for v in candidates(m, rng, depth + 1) if _ok(m, v)][:2] or [0] for k, m in dt.members.items()}
        full = {k: v[0] for k, v in per.items()}
        vals += [full, {k: v[-1] for k, v in per.items()}, {'a': per['a'][0]}, {'b': per['b'][0]}, {}, {'a': None}, {'a': per['a'][0], 'b': None},
                 dict(full, c=1), [('a', 1)], 'a', [['a', 1]], {'a': 'x', 'b': 'y'}]
        # immutable structs as drivers hand them back (results of another datatype's __call__ / validate): members are NOT known to be valid
        allv = {k: candidates(m, rng, depth + 1) for k, m in dt.members.items()} if depth < 2 else per
        badv = {k: [v for v in vs if C.in_universe(v) and not _ok(dt.members[k], v)][:2] for k, vs in allv.items()}
        vals += [ImmutableDict(x) for x in vals if isinstance(x, dict)]
        vals += [ImmutableDict(dict(full, **{k: b})) for k, bs in badv.items() for b in bs]
    return vals


def _ok(dt, v):
    try:
        dt.validate(v)
        return True
    except Exception:
        return False


def _finding_key(clause, tname, inp, observed):
    """identifies the input class of a finding recorded in known_findings.json (nothing else is ever suppressed)"""
    if clause == 'rebuild/behaviour' and tname.startswith('limits(') and 'RangeError' in str(observed).split('rebuild')[0]:
        v = inp.get('value')
        try:
            if isinstance(v, (list, tuple)) and len(v) == 2 and v[1] < v[0]:
                return 'C03-limits-order-not-in-datainfo'
        except TypeError:
            pass
    return None


class Run:
    def __init__(self):
        self.evals = 0
        self.distinct = set()
        self.violations = []
        self.per_clause = {}
        self.samples = []

    def bad(self, clause, tname, func, inp, observed):
        self.per_clause[(clause, func)] = self.per_clause.get((clause, func), 0) + 1
        if self.per_clause[(clause, func)] <= 4:       # a few witnesses per (clause, function); no global cap that could hide others
            v = {'clause': clause, 'contract': func, 'file': 'frappy/datatypes.py', 'func': func,
                 'input': {'datatype': tname, **{k: repr(v) for k, v in inp.items()}}, 'observed': observed}
            fk = _finding_key(clause, tname, inp, observed)
            if fk:
                v['finding_key'] = fk
            self.violations.append(v)

    def case(self, key, sample=None):
        self.evals += 1
        self.distinct.add(key)
        if sample is not None and len(self.samples) < 8 and self.evals % 997 == 1:
            self.samples.append(sample)


def check_c01(run, tname, dt, v, prevs):
    cls = type(dt).__name__
    for prev in prevs:
        run.case((tname, repr(v), repr(prev), 'validate'), {'datatype': tname, 'value': repr(v), 'previous': repr(prev)})
        try:
            r = dt.validate(v, prev)
        except BadValueError:
            if True:       # whatever the (valid) previous value is, a member of the value set is accepted
                try:
                    if C.InSet(dt, v):
                        run.bad('validate[idem]/never-raises', tname, f'{cls}.validate', {'value': v, 'previous': prev}, 'raised on a member of the value set')
                except Exception:
                    pass
            continue
        except Exception as e:
            if not C.in_universe(v):
                continue
            run.bad('validate/raises.badvalue', tname, f'{cls}.validate', {'value': v, 'previous': prev}, f'{type(e).__name__}: {e}')
            continue
        try:
            if not C.InSet(dt, r):
                run.bad('validate/ensures.sound', tname, f'{cls}.validate', {'value': v, 'previous': prev}, f'returned {r!r} outside the value set')
            elif not C.Den(dt, r, v):
                run.bad('validate/ensures.same', tname, f'{cls}.validate', {'value': v, 'previous': prev}, f'returned {r!r} for offered {v!r}')
            elif (prev is None) and C.InSet(dt, v) and not (r == v and type(r) is type(v)) and not isinstance(dt, D.StructOf):
                run.bad('validate[idem]/ensures.unchanged', tname, f'{cls}.validate', {'value': v, 'previous': prev}, f'returned {r!r}')
            elif isinstance(dt, D.StructOf) and not C.Merge_StructOf(dt, r, v, prev):
                run.bad('validate/ensures.merge', tname, f'{cls}.validate', {'value': v, 'previous': prev}, f'returned {r!r}')
            else:
                # validating the validated value returns it unchanged
                r2 = dt.validate(r, None)
                if not (r2 == r and type(r2) is type(r)):
                    run.bad('validate[idem]/ensures.unchanged', tname, f'{cls}.validate', {'value': r, 'previous': None}, f'returned {r2!r}')
        except Exception as e:
            run.bad('validate/spec-evaluation', tname, f'{cls}.validate', {'value': v, 'previous': prev}, f'{type(e).__name__}: {e}')
    # __call__
    run.case((tname, repr(v), '__call__'))
    try:
        r = dt(v)
        if not C.Conv(dt, r) or not C.DenConv(dt, r, v):
            run.bad('__call__/ensures', tname, f'{cls}.__call__', {'value': v}, f'returned {r!r}')
    except BadValueError:
        pass
    except Exception as e:
        if C.in_universe(v):
            run.bad('__call__/raises.badvalue', tname, f'{cls}.__call__', {'value': v}, f'{type(e).__name__}: {e}')
    # import_value (wire values only)
    if C.is_wire(v):
        run.case((tname, repr(v), 'import'))
        try:
            r = dt.import_value(v)
            if not C.ConvW(dt, r) or not C.DenWire(dt, r, v):
                run.bad('import_value/ensures', tname, f'{cls}.import_value', {'value': v}, f'returned {r!r}')
        except BadValueError:
            pass
        except Exception as e:
            run.bad('import_value/raises.badvalue', tname, f'{cls}.import_value', {'value': v}, f'{type(e).__name__}: {e}')


def same_text(dt, a, b):
    try:
        return dt.to_string(a) == dt.to_string(b)
    except Exception:
        return False


def check_c02(run, tname, dt, v):
    """v is valid (already validated): wire and text round trips"""
    cls = type(dt).__name__
    run.case((tname, repr(v), 'export'), {'datatype': tname, 'valid value': repr(v)})
    try:
        w = dt.export_value(v)
        text = json.dumps(w, allow_nan=False)
        w2 = json.loads(text)
        kind_ok = C.JsonKind(dt, w)
        if not kind_ok:
            run.bad('export_value/ensures.kind', tname, f'{cls}.export_value', {'value': v}, f'exported {w!r}')
        for side, d in (('node', dt), ('client', D.get_datatype(json.loads(json.dumps(dt.export_datatype()))))):
            r = d.validate(d.import_value(w2))
            if not (r == v) or not same_text(dt, r, v):
                run.bad(f'roundtrip.{side}', tname, f'{cls}.export_value', {'value': v}, f'exported {w!r}, re-imported {r!r}')
    except Exception as e:
        run.bad('export_value/raises', tname, f'{cls}.export_value', {'value': v}, f'{type(e).__name__}: {e}')
    # text form, as offered to GUI / CLI users: the client-side datatype rebuilt from the description
    run.case((tname, repr(v), 'text'))
    try:
        cdt = D.get_datatype(json.loads(json.dumps(dt.export_datatype())))
        t = cdt.to_string(v)
        back = cdt.from_string(t)
        t2 = cdt.to_string(back)
        if t2 != t:
            run.bad('text.roundtrip', tname, f'{cls}.from_string', {'value': v}, f'text {t!r} read back as {back!r} with text {t2!r}')
        elif not _has_float(v) and not (back == v):
            run.bad('text.roundtrip.equal', tname, f'{cls}.from_string', {'value': v}, f'text {t!r} read back as {back!r}')
    except Exception as e:
        run.bad('text.raises', tname, f'{cls}.to_string/from_string', {'value': v}, f'{type(e).__name__}: {e}')


def _has_float(v):
    if isinstance(v, float):
        return True
    if isinstance(v, (tuple, list)):
        return any(_has_float(x) for x in v)
    if isinstance(v, dict):
        return any(_has_float(x) for x in v.values())
    return False


def fields(dt):
    return json.dumps(dt.export_datatype(), sort_keys=True)


def check_c03(run, tname, dt, probes):
    cls = type(dt).__name__
    run.case((tname, 'rebuild'), {'datatype': tname, 'datainfo': dt.export_datatype()})
    try:
        info = json.loads(json.dumps(dt.export_datatype()))
        rebuilt = D.get_datatype(info)
        cp = dt.copy()
    except Exception as e:
        run.bad('rebuild/raises', tname, f'{cls}.export_datatype', {}, f'{type(e).__name__}: {e}')
        return
    for what, other in (('rebuild', rebuilt), ('copy', cp)):
        if fields(other) != fields(dt):
            run.bad(f'{what}/datainfo', tname, f'{cls}.export_datatype' if what == 'rebuild' else f'{cls}.copy', {},
                    f'{fields(dt)} became {fields(other)}')
        for v in probes:
            run.case((tname, what, repr(v)))
            a = _outcome(dt, v)
            b = _outcome(other, v)
            if a != b:
                run.bad(f'{what}/behaviour', tname, f'{cls}.export_datatype' if what == 'rebuild' else f'{cls}.copy', {'value': v},
                        f'original {a}, {what} {b}')
    if cp is dt or _shares(dt, cp):
        run.bad('copy/fresh', tname, f'{cls}.copy', {}, 'copy shares mutable state with the original')


def _norm(r):
    if type(r).__name__ == 'EnumMember':
        return ('enum', r.name, r.value)
    if isinstance(r, tuple):
        return tuple(_norm(x) for x in r)
    if isinstance(r, dict):
        return {k: _norm(x) for k, x in r.items()}
    return r


def _outcome(dt, v):
    try:
        r = dt.validate(v)
        return ('ret', repr(_norm(r)))
    except Exception as e:
        return ('exc', type(e).__name__)


def _shares(a, b):
    for attr in ('members', 'optional', '_enum', 'propertyValues'):
        x, y = getattr(a, attr, None), getattr(b, attr, None)
        if x is not None and x is y and not isinstance(x, (tuple, str, int, float)):
            return True
        if isinstance(x, tuple) and isinstance(y, tuple):
            if any(p is q for p, q in zip(x, y) if isinstance(p, D.DataType)):
                return True
        if isinstance(x, dict) and isinstance(y, dict) and attr == 'members':
            if any(x[k] is y.get(k) for k in x):
                return True
        if isinstance(x, D.DataType) and x is y:
            return True
    return False


def _clearly_invalid(b, v):
    """not merely float noise at a limit: also invalid when nudged by 1e-9 relative"""
    if isinstance(v, float):
        return not _ok(b, v * (1 - 1e-9)) and not _ok(b, v * (1 + 1e-9))
    return True


def check_compat(run, trees_):
    """compatible(a, b) returns only if every valid value of a is valid for b; and returns for nested sets"""
    for (n1, f1), (n2, f2) in itertools.product(trees_, trees_):
        a, b = f1(), f2()
        run.case((n1, n2, 'compatible'))
        try:
            a.compatible(b)
            ok = True
        except BadValueError:
            ok = False
        except Exception as e:
            run.bad('compatible/raises', f'{n1} -> {n2}', f'{type(a).__name__}.compatible', {}, f'{type(e).__name__}: {e}')
            continue
        valid_a = [v for v in candidates(a, random.Random(0)) if _ok(a, v)]
        witness = [v for v in valid_a if not _ok(b, a.validate(v)) and _clearly_invalid(b, a.validate(v))]
        if ok and witness:
            run.bad('compatible/sound', f'{n1} -> {n2}', f'{type(a).__name__}.compatible', {'value': witness[0]},
                    'passed although this valid value of the first type is invalid for the second')
        if not ok and n1 == n2:
            run.bad('compatible/complete', f'{n1} -> {n2}', f'{type(a).__name__}.compatible', {}, 'a type is not compatible with itself')


def main():
    req = json.load(sys.stdin)
    tier, seed, prop = req.get('tier', 'quick'), int(req.get('seed', 0)), req['args']['prop']
    rng = random.Random(seed)
    depth = 1 if tier == 'quick' else 2
    limit = 40 if tier == 'quick' else 160
    ts = trees(depth, rng, limit)
    run = Run()
    for tname, f in ts:
        dt = f()
        cands = candidates(dt, rng)
        if prop == 'C01':
            valid = [dt.validate(v) for v in cands if _ok(dt, v)]
            for v in cands:
                prevs = [None] + valid[:2] + ([v] if _ok(dt, v) and C.InSet(dt, v) else [])
                # a previous value LONGER than the offered one (arrays: the parameter shrinks) and the fullest struct
                sized = [x for x in valid if hasattr(x, '__len__') and not isinstance(x, (str, bytes))]
                if sized:
                    longest = max(sized, key=len)
                    if not any(longest is q for q in prevs):
                        prevs.append(longest)
                check_c01(run, tname, dt, v, prevs)
        elif prop == 'C02':
            seen = []
            for v in cands:
                # valid values are the members of the declared value set (not what validate happens to return)
                try:
                    members = [v] if C.InSet(dt, v) else []
                except Exception:
                    members = []
                if _ok(dt, v):
                    members.append(dt.validate(v))
                for r in members:
                    if not any(r == s and type(r) is type(s) for s in seen):
                        seen.append(r)
                        check_c02(run, tname, dt, r)
        elif prop == 'C03':
            check_c03(run, tname, dt, cands)
    if prop == 'C03':
        base = [t for t in ts if '(' not in t[0]] + [t for t in ts if t[0].startswith(('array(int)', 'tuple(int', 'struct(int', 'limits'))][:6]
        check_compat(run, base)
    json.dump({'evaluations': run.evals, 'distinct': len(run.distinct),
               'bound': f'datatype trees to container depth {depth} ({len(ts)} trees from {len(leaves())} boundary leaf types), '
                        f'{len(SCALARS)} scalar candidates + shaped containers, previous in (None, two valid values, the longest valid value, the value itself)',
               'exhaustive': False, 'samples': run.samples, 'violations': run.violations}, sys.stdout, default=repr)


if __name__ == '__main__':
    main()
