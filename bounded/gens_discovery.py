"""input generators of the bounded tier for contracts/discovery.py (C19): the real UDPListener over a fake socket module"""
import socket as real_socket
import types

C = None


class FakeSock:
    def __init__(self, datagrams, sent):
        self.datagrams, self.sent = list(datagrams), sent

    def setsockopt(self, *a):
        pass

    def bind(self, addr):
        pass

    def recvfrom(self, n):
        if not self.datagrams:
            raise real_socket.error('closed')
        msg, addr = self.datagrams.pop(0)
        return msg[:n], addr

    def sendto(self, data, addr):
        self.sent.append((data, addr))

    def close(self):
        pass


def _patch(datagrams, sent):
    import frappy.protocol.discovery as D
    fake = types.SimpleNamespace(**{k: getattr(real_socket, k) for k in dir(real_socket) if not k.startswith('__')})
    fake.socket = lambda *a, **k: FakeSock(datagrams, sent)
    D.socket = fake
    D.get_version = lambda *a, **k: 'verif'
    return D


IDS = ['eq', 'e' * 100, 'é' * 100, 'q"' * 60, 'x' * 440, 'x' * 460, '\\' * 200, '€' * 140, 'a\n' * 100, '\U0001f600' * 50]
DESCR = [None, '', 'short', 'd' * 600, 'é' * 300, '"' * 400, '\\n' * 300, 'mixed é"\\ €\U0001f600 ' * 40, '\x00\x01' * 200]
IFACES = [['tcp://10767'], ['tcp://1', 'tcp://65535'], [], ['tcp://2', 'ws://3']]


def gen_init(tier, rng):
    """equipment ids x descriptions with multi-byte and JSON-escaped characters around the 508 byte budget x interface lists"""
    import logging
    for eq in IDS:
        for d in DESCR:
            for ifaces in (IFACES if tier != 'quick' else IFACES[:2]):
                D = _patch([], [])
                obj = object.__new__(D.UDPListener)
                yield dict(label=f'id={eq[:12]!r}*{len(eq)} descr={str(d)[:12]!r}*{len(d or "")} ifaces={ifaces}', self=obj,
                           args={'equipment_id': eq, 'description': d, 'ifaces': ifaces, 'logger': logging.getLogger('verif-disc')})


DATAGRAMS = [b'{"SECoP": "discover"}', b'{"SECoP":"discover","x":1}', b'5', b'[]', b'null', b'"discover"', b'{"SECoP": "node"}',
             b'\xff\xfe', b'{"SECoP": "discover"', b'', b'{"SECoP": ["discover"]}', b'[' * 1024, b'[' * 5000, b'{"a":' * 3000,
             b'{"SECoP": "discover"}' + b' ' * 2000, b' ' * 1010 + b'{"SECoP": "discover"}', b'{"SECoP": "discover", "pad": "' + b'x' * 3000 + b'"}',
             b'NaN', b'{"SECoP": NaN}', b'\xc3', b'{"SECoP": "disc\\u006fver"}', b'1e999', b'{"SECoP": {"SECoP": "discover"}}']


def gen_run(tier, rng):
    """sequences of 1..4 datagrams (valid requests, other JSON, invalid UTF-8 / JSON, deep nesting up to 64 KiB, oversize) from two peers"""
    import logging
    seqs = [[d] for d in DATAGRAMS]
    for _ in range(60 if tier == 'quick' else 600):
        seqs.append([rng.choice(DATAGRAMS) for _ in range(rng.randint(2, 4))])
    for eq, descr in (('eq', 'd'), ('x' * 460, 'never fits')):
        for broadcast in (True, False):
            for seq in seqs:
                sent = []
                reqs = [(m, ('peer%d' % (i % 2), 1000 + i)) for i, m in enumerate(seq)]
                D = _patch(reqs, sent)
                l = D.UDPListener(eq, descr, ['tcp://10767', 'tcp://2'], logging.getLogger('verif-disc'), startup_broadcast=broadcast)
                l.startup_broadcast = False       # the start-up broadcast is not an answer; checked separately below
                yield dict(label=f'id*{len(eq)} {[m[:24] for m in seq]!r}', self=l, args={},
                           ghosts={'udp_sent': sent, 'requests': list(reqs)})


GENS = {'UDPListener.__init__': gen_init, 'UDPListener.run': gen_run}
