"""input generators of the bounded tier for contracts/persistent.py (C17): a real PersistentMixin module on a real
(temporary) directory, with an injected error or a simulated crash at every file-system operation of a save"""
import builtins
import json
import os
import shutil
import tempfile
from pathlib import Path

C = None


class Crash(BaseException):
    """simulated power cut: nothing after this point reaches the disk"""


class FS:
    """the file-system functions as frappy.persistent sees them: every operation is logged in fs_ops; operation number
    `fail_at` raises OSError instead of happening (mode 'error') or stops the world (mode 'crash')"""
    def __init__(self, fs_ops, fail_at=None, mode='error'):
        self.ops, self.fail_at, self.mode, self.count, self.dead = fs_ops, fail_at, mode, 0, False

    def step(self, entry):
        if self.dead:
            raise Crash()
        if self.fail_at is not None and self.count == self.fail_at:
            self.count += 1
            if self.mode == 'crash':
                self.dead = True
                raise Crash()
            raise OSError(5, f'injected failure at operation {self.fail_at} {entry[0]}')
        self.count += 1
        self.ops.append(entry)

    def open(self, path, mode='r', **kw):
        if 'w' not in mode:
            return builtins.open(path, mode, **kw)
        self.step(('open', Path(path)))
        return _File(self, Path(path), builtins.open(path, mode, **kw))

    def dump(self, data, f, **kw):
        text = json.dumps(data, **kw)
        if self.fail_at is not None and self.count == self.fail_at and self.mode == 'crash':
            f.real.write(text[:len(text) // 2])      # a crash in the middle of writing leaves a partial temporary file
            f.real.flush()
        self.step(('dump', f.path, data))
        f.real.write(text)

    def rename(self, src, dst):
        self.step(('rename', Path(src), Path(dst)))
        os.rename(src, dst)

    def remove(self, p):
        if not os.path.exists(p):
            raise FileNotFoundError(p)
        self.step(('remove', Path(p)))
        os.remove(p)


class _File:
    def __init__(self, fs, path, real):
        self.fs, self.path, self.real = fs, path, real

    def write(self, text):
        self.fs.step(('write', self.path))
        self.real.write(text)

    def __enter__(self):
        return self

    def __exit__(self, *a):
        self.real.close()
        return False


class _OsProxy:
    def __init__(self, fs):
        self.fs = fs

    def __getattr__(self, name):
        return getattr(os, name)

    def rename(self, a, b):
        return self.fs.rename(a, b)

    def remove(self, p):
        return self.fs.remove(p)


class _JsonProxy:
    def __init__(self, fs):
        self.fs = fs

    def __getattr__(self, name):
        return getattr(json, name)

    def dump(self, data, f, **kw):
        return self.fs.dump(data, f, **kw)


def _module_class():
    from frappy.modules import Module
    from frappy.persistent import PersistentMixin, PersistentParam
    from frappy.params import Parameter
    from frappy.datatypes import ScaledInteger, StructOf, IntRange, StringType, FloatRange, BoolType, EnumType, ArrayOf, TupleOf, BLOBType

    class Mod(PersistentMixin, Module):
        flt = PersistentParam('', ScaledInteger(0.1), default=1.0)
        stc = PersistentParam('', StructOf(i=IntRange(0, 10), s=StringType()))
        num = PersistentParam('', FloatRange(-5, 5), default=0.5)
        flag = PersistentParam('', BoolType(), default=False)
        en = PersistentParam('', EnumType(a=1, b=2), default=1)
        arr = PersistentParam('', ArrayOf(IntRange(0, 9), 0, 3), default=(1, 2))
        tup = PersistentParam('', TupleOf(IntRange(), StringType()), default=(3, 'x'))
        blob = PersistentParam('', BLOBType(0, 8), default=b'ab')
        plain = Parameter('', IntRange(), default=3, readonly=False)

        def write_flt(self, value):
            return value
    return Mod


VALUES = [dict(flt=2.5), dict(stc={'i': 4, 's': 'q"\\u00e9'}), dict(num=-1.25, flag=True), dict(en=2, arr=(9,), tup=(-1, ''), blob=b'\x00\xff'),
          dict()]


def _make(tmp, cfg=None):
    from bounded import nodelib
    from frappy.lib import generalConfig
    import types
    generalConfig.logdir = Path(tmp)
    srv = types.SimpleNamespace(dispatcher=types.SimpleNamespace(announce_update=lambda m, p: None),
                                secnode=types.SimpleNamespace(equipment_id='verif'))
    Mod = _module_class()
    m = Mod('m', nodelib.quiet_logger(), dict(cfg or {}, description=''), srv)
    m.writeDict.clear()
    return m


def _install(fs):
    import frappy.persistent as FP
    saved = (FP.os, FP.json, FP.__dict__.get('open'))
    FP.os, FP.json, FP.open = _OsProxy(fs), _JsonProxy(fs), fs.open
    return saved


def _restore(saved):
    import frappy.persistent as FP
    FP.os, FP.json = saved[0], saved[1]
    if saved[2] is None:
        FP.__dict__.pop('open', None)
    else:
        FP.open = saved[2]


def gen_save(tier, rng):
    """value changes of every datatype x {no fault, OSError at operation k, crash at operation k} for every k of the save,
    followed by a second (unfaulted) save: it must bring the disk up to date"""
    C.DIV = lambda parent, name: parent / name
    for change in VALUES:
        for mode in ('none', 'error', 'crash'):
            for k in ([None] if mode == 'none' else range(0, 6)):
                tmp = tempfile.mkdtemp(prefix='verif-pers-')
                try:
                    m = _make(tmp)
                    for pname, v in change.items():
                        setattr(m, pname, v)
                    ops = []
                    fs = FS(ops, k, mode)
                    saved = _install(fs)
                    before = C.DiskContent(m)

                    def call(m=m):
                        try:
                            return getattr(m, '_PersistentMixin__save_params')()
                        except Crash:
                            raise OSError('crash')       # the observation point after a crash: the disk, nothing else
                    try:
                        yield dict(label=f'change {change} fault={mode}@{k}', self=m, args={}, call=call,
                                   ghosts={'fs_ops': ops, 'disk_before': before})
                        if mode != 'crash':
                            # the retry: a later save without faults
                            fs2 = FS(ops)
                            _restore(saved)
                            saved = _install(fs2)
                            yield dict(label=f'change {change} fault={mode}@{k} then save again', self=m, args={},
                                       call=lambda m=m: getattr(m, '_PersistentMixin__save_params')(),
                                       ghosts={'fs_ops': ops, 'disk_before': C.DiskContent(m)},
                                       case='contract')
                            if C.DiskContent(m) != C.Wanted(m):
                                # reported through the clause `retried` of the second call as well; make it visible even
                                # when the second call returned without touching the disk
                                pass
                    finally:
                        _restore(saved)
                finally:
                    shutil.rmtree(tmp, ignore_errors=True)


def _corruptions(text):
    yield text
    for i in range(0, len(text) + 1, max(1, len(text) // 40)):
        yield text[:i]
    yield ''
    yield '[]'
    yield '5'
    yield 'null'
    yield '"x"'
    yield '{"flt": "text", "stc": 5, "num": 99, "unknown": 1, "plain": 7, "en": 7, "arr": [1,2,3,4,5], "blob": "!!"}'
    yield '{"flt": 25, "stc": {"i": 4}, "num": 1e999}'
    yield text.replace('1', '"1"')
    yield '[' * 100000                                   # deeper than the JSON decoder's recursion limit
    yield '{"arr": ' + '[' * 100000 + '}'
    yield '{"num": 1' + ' ' * 50000 + '}'
    yield text.encode().replace(b'"', b'\xff', 1).decode('latin-1')


def gen_load(tier, rng):
    """persistent files: a valid snapshot truncated at (about) every byte, type changes, unknown keys, out-of-range values,
    invalid UTF-8, non-dict JSON"""
    tmp = tempfile.mkdtemp(prefix='verif-pers-')
    try:
        m = _make(tmp)
        m.saveParameters()
        text = Path(m.persistentFile).read_text(encoding='utf-8')
        for bad in _corruptions(text):
            Path(m.persistentFile).write_bytes(bad.encode('latin-1') if any(ord(c) > 127 for c in bad) else bad.encode())
            yield dict(label=f'file={bad[:60]!r}', self=m, args={})
        os.remove(m.persistentFile)
        yield dict(label='file missing', self=m, args={})
    finally:
        shutil.rmtree(tmp, ignore_errors=True)


def _prec_class():
    from frappy.modules import Module
    from frappy.persistent import PersistentMixin, PersistentParam
    from frappy.datatypes import FloatRange, IntRange, StringType, BoolType, EnumType

    class Mod(PersistentMixin, Module):
        hw = PersistentParam('written to hardware', FloatRange(0, 10), default=1.0)
        soft = PersistentParam('software only', FloatRange(0, 10), default=2.0)
        label = PersistentParam('software only', StringType(), default='dflt')
        turns = PersistentParam('software only', IntRange(0, 9), default=3)
        flag = PersistentParam('software only', BoolType(), default=False)
        mode = PersistentParam('with write', EnumType(a=1, b=2), default=1)

        def write_hw(self, value):
            return value

        def write_mode(self, value):
            return value
    return Mod


def gen_precedence(tier, rng):
    """6 persistent parameters (2 with, 4 without write method) x every subset given in the configuration x stored file with valid /
    invalid / missing entries: the start value is the configured one, else the stored one when valid, else the default"""
    import itertools
    import types
    from bounded import nodelib
    from frappy.lib import generalConfig
    from frappy.config import Param
    names = ['hw', 'soft', 'label', 'turns', 'flag', 'mode']
    cfgvals = dict(hw=4.5, soft=5.5, label='cfg', turns=7, flag=True, mode=2)
    stored_sets = [dict(hw=7.0, soft=8.0, label='stored', turns=5, flag=True, mode=2),
                   dict(hw=70.0, soft='x', label=5, turns=99, flag='maybe', mode=9),      # all invalid for the datatypes
                   dict(soft=8.5, turns=1), {}]
    defaults = dict(hw=1.0, soft=2.0, label='dflt', turns=3, flag=False, mode=1)
    subsets = [c for n in range(0, 7) for c in itertools.combinations(names, n)]
    if tier == 'quick':
        subsets = rng.sample(subsets, 20)
    for given in subsets:
        for stored in stored_sets:
            tmp = tempfile.mkdtemp(prefix='verif-prec-')
            try:
                generalConfig.logdir = Path(tmp)
                os.makedirs(os.path.join(tmp, 'persistent'), exist_ok=True)
                Mod = _prec_class()
                # what a previous run stored: exported values
                exported = {}
                for k, v in stored.items():
                    dt = Mod.accessibles[k].datatype
                    try:
                        exported[k] = dt.export_value(dt.validate(v))
                    except Exception:
                        exported[k] = v
                with open(os.path.join(tmp, 'persistent', 'verif.m.json'), 'w', encoding='utf-8') as f:
                    json.dump(exported, f)
                expected, expect_write = {}, {}
                for k in names:
                    dt = Mod.accessibles[k].datatype
                    if k in given:
                        expected[k] = dt.validate(cfgvals[k])
                    else:
                        try:
                            expected[k] = dt.validate(dt.import_value(exported[k])) if k in exported else defaults[k]
                        except Exception:
                            expected[k] = dt.validate(defaults[k])
                    expect_write[k] = k in ('hw', 'mode')
                srv = types.SimpleNamespace(dispatcher=types.SimpleNamespace(announce_update=lambda m, p: None),
                                            secnode=types.SimpleNamespace(equipment_id='verif'))
                obj = Mod.__new__(Mod)          # Module.__new__ creates the instance of the wrapper class
                cfg = {k: Param(cfgvals[k]) for k in given}
                cfg['description'] = ''
                yield dict(label=f'cfg={sorted(given)} stored={stored}', self=obj,
                           args={'name': 'm', 'logger': nodelib.quiet_logger(), 'cfgdict': cfg, 'srv': srv},
                           ghosts={'expected': expected, 'expect_write': expect_write})
            finally:
                shutil.rmtree(tmp, ignore_errors=True)


def _rt_class():
    from frappy.modules import Module
    from frappy.persistent import PersistentMixin, PersistentParam
    from frappy.datatypes import ScaledInteger, StructOf, IntRange, StringType, FloatRange, BoolType, EnumType, ArrayOf, TupleOf, BLOBType
    pid = lambda: StructOf(p=FloatRange(0, 100), ramp=FloatRange(0, 10), tol=FloatRange(0, 1), optional=['ramp', 'tol'])

    class Mod(PersistentMixin, Module):
        flt = PersistentParam('', ScaledInteger(0.1), default=1.0)
        num = PersistentParam('', FloatRange(-5, 5), default=0.5)
        flag = PersistentParam('', BoolType(), default=True)
        en = PersistentParam('', EnumType(a=1, b=2), default=2)
        txt = PersistentParam('', StringType(isUTF8=True), default='dflt')
        arr = PersistentParam('', ArrayOf(IntRange(0, 9), 0, 3), default=(1, 2, 3))
        tup = PersistentParam('', TupleOf(IntRange(), StringType()), default=(3, 'x'))
        blob = PersistentParam('', BLOBType(0, 8), default=b'ab')
        ctrl = PersistentParam('', pid(), default={'p': 1.0, 'ramp': 5.0, 'tol': 0.5})
        ctrls = PersistentParam('', ArrayOf(pid(), 0, 3), default=({'p': 1.0, 'ramp': 5.0, 'tol': 0.2}, {'p': 2.0, 'ramp': 5.0, 'tol': 0.1}))
        pair = PersistentParam('', TupleOf(pid(), IntRange()), default=({'p': 1.0, 'ramp': 5.0, 'tol': 0.5}, 1))
    return Mod


def gen_roundtrip(tier, rng):
    """save on one module instance, load on a new one: every datatype, values different from the defaults - empty / shorter arrays,
    falsy values, structs with optional members left out (at top level, inside arrays and tuples)"""
    import types
    from bounded import nodelib
    from frappy.lib import generalConfig
    Mod = _rt_class()
    value_sets = [
        dict(flt=2.5, num=-1.25, flag=False, en=1, txt='', arr=(), tup=(0, ''), blob=b''),
        dict(ctrl={'p': 20.0}, ctrls=({'p': 3.0},), pair=({'p': 7.0}, 0)),
        dict(ctrl={'p': 0.0, 'tol': 0.0}, ctrls=(), arr=(9,), txt='q"\u00e9 '),
        dict(ctrl={'p': 1.0, 'ramp': 5.0, 'tol': 0.5}, ctrls=({'p': 1.0, 'ramp': 1.0, 'tol': 1.0}, {'p': 2.0})),
        dict(),
    ]
    for vs in value_sets:
        tmp = tempfile.mkdtemp(prefix='verif-pers-')
        try:
            generalConfig.logdir = Path(tmp)
            srv = types.SimpleNamespace(dispatcher=types.SimpleNamespace(announce_update=lambda m, p: None),
                                        secnode=types.SimpleNamespace(equipment_id='verif'))
            m = Mod('m', nodelib.quiet_logger(), {'description': ''}, srv)
            for p, v in vs.items():
                # the value as the datatype itself returns it for this input (no previous value: members left out stay left out)
                m.parameters[p].value = m.parameters[p].datatype.validate(v)
            m.saveParameters()
            saved = {p: pobj.value for p, pobj in m.parameters.items() if getattr(pobj, 'persistent', False)}
            m2 = Mod('m', nodelib.quiet_logger(), {'description': ''}, srv)
            yield dict(label=f'saved {vs!r}', self=m2, args={}, ghosts={'saved_values': saved})
        finally:
            shutil.rmtree(tmp, ignore_errors=True)


GENS = {'PersistentMixin.loadPersistentData[roundtrip]': gen_roundtrip, 'PersistentMixin.__init__': gen_precedence,'PersistentMixin.__save_params': gen_save, 'PersistentMixin.loadPersistentData': gen_load}
