"""input generators of the bounded tier for contracts/events.py (C08): the real dispatcher's subscription table"""
import itertools

from pyvc import native

C = None
EVENTS = ['m', 'm:a', 'm:b', 'n', 'n:a', 'mm', 'mm:a', 'm:', ':a']


class Conn:
    def __init__(self, n, sent):
        self.n, self.sent = n, sent

    def send_reply(self, data):
        self.sent.append((self, data))

    def __repr__(self):
        return f'conn{self.n}'


def _dispatcher():
    from bounded import nodelib
    from frappy.modules import Readable
    return nodelib.Srv([nodelib.mod('m', Readable), nodelib.mod('n', Readable)]).dispatcher


def _tables(conns, rng, count):
    cells = [(e, c) for e in EVENTS for c in conns]
    yield {}, set()
    yield {e: set(conns) for e in EVENTS}, set(conns)
    yield {e: set() for e in EVENTS}, set()
    for _ in range(count):
        k = rng.randint(0, len(cells))
        t = {}
        for e, c in rng.sample(cells, k):
            t.setdefault(e, set()).add(c)
        act = {c for c in conns if rng.random() < 0.3}
        yield t, act


def _native_views():
    """native meaning of the uninterpreted views of the contract file"""
    C.GOT = lambda log, c: any(e[0] is c for e in log)


def _setup(d, table, active, conns):
    _native_views()
    d._subscriptions = {e: set(cs) for e, cs in table.items()}
    d._active_connections = set(active)
    d._connections = list(conns)
    native.STR_UNIVERSE[:] = EVENTS + ['x', 'x:a']
    native.OBJ_UNIVERSE[:] = conns


def gen_table_op(which):
    def gen(tier, rng):
        """random subscription tables over 9 event names (modules, parameters, prefix-sharing names) x 3 connections x every
        (connection, event) argument incl. unknown events"""
        d = _dispatcher()
        d.set_all_log_levels = lambda conn, level: None
        sent = []
        conns = [Conn(i, sent) for i in range(3)]
        for table, active in _tables(conns, rng, 60 if tier == 'quick' else 600):
            for c in conns:
                for e in (EVENTS + ['x'] if which in ('subscribe', 'unsubscribe') else [None]):
                    _setup(d, table, active, conns)
                    if rng.random() < 0.4:
                        d._connections = [c]          # the only registered connection
                    args = {'conn': c} if e is None else {'conn': c, 'eventname': e}
                    if which == 'handle__ident':
                        args = {'conn': c, 'specifier': None, 'data': None}
                    yield dict(label=f'{table!r} active={active!r} {which}({c},{e!r})', self=d, args=args, ghosts={'sent': sent})
    return gen


def gen_broadcast(tier, rng):
    """random subscription tables x updates of m:a, m:b, n:a, mm:a, x:a"""
    d = _dispatcher()
    sent = []
    conns = [Conn(i, sent) for i in range(3)]
    for table, active in _tables(conns, rng, 100 if tier == 'quick' else 1000):
        for spec in ('m:a', 'm:b', 'n:a', 'mm:a', 'x:a', 'm'):
            _setup(d, table, active, conns)
            msg = ('update', spec, [1, {}])
            yield dict(label=f'{table!r} active={active!r} broadcast {spec}', self=d, args={'msg': msg, 'reallyall': False},
                       ghosts={'sent': sent})
            # the same event again: a table corrupted by the first broadcast shows in the second delivery
            yield dict(label=f'{table!r} active={active!r} broadcast {spec} (2nd)', self=d, args={'msg': msg, 'reallyall': False},
                       ghosts={'sent': sent})


def gen_deactivate(tier, rng):
    """random subscription tables x 3 connections x deactivate of every event name, of the whole node (no specifier), with data"""
    d = _dispatcher()
    sent = []
    conns = [Conn(i, sent) for i in range(3)]
    for table, active in _tables(conns, rng, 40 if tier == 'quick' else 400):
        for c in conns:
            for e, data in [(x, None) for x in EVENTS + ['x', None, '']] + [('m', 1), (None, 'x')]:
                _setup(d, table, active, conns)
                yield dict(label=f'{table!r} active={active!r} deactivate({c},{e!r},{data!r})', self=d,
                           args={'conn': c, 'specifier': e, 'data': data}, ghosts={'sent': sent})


GENS = {'Dispatcher.handle__ident': gen_table_op('handle__ident'), 'Dispatcher.remove_connection': gen_table_op('remove_connection'),
        'Dispatcher.handle_deactivate': gen_deactivate, 'Dispatcher.subscribe': gen_table_op('subscribe'), 'Dispatcher.unsubscribe': gen_table_op('unsubscribe'),
        'Dispatcher.reset_connection': gen_table_op('reset_connection'), 'Dispatcher.broadcast_event': gen_broadcast}
