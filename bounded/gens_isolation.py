"""input generators of the bounded tier for contracts/isolation.py (C09): generated class hierarchies"""
import itertools
import json

C = None


def _hierarchy():
    from frappy.modules import Module, Readable, Drivable, Parameter, Command
    from frappy.datatypes import FloatRange, IntRange, EnumType, StructOf, ArrayOf, StringType, TupleOf

    class Base(Readable):
        value = Parameter('v', FloatRange(0, 10, unit='K'), default=1)
        mode = Parameter('m', EnumType(a=1, b=2), default=1, readonly=False)
        cfg = Parameter('s', StructOf(x=IntRange(0, 5), y=StringType()), default={'x': 1, 'y': ''}, readonly=False)

        @Command(TupleOf(IntRange(0, 5), StringType()), result=ArrayOf(IntRange(), 0, 3))
        def calc(self, a, b):
            """c"""
            return [a]

    class Mixin:
        extra = Parameter('e', ArrayOf(FloatRange(0, 1), 0, 4), default=(), readonly=False)

    class SubA(Base):
        value = Parameter(datatype=FloatRange(0, 5, unit='K'))
        mode = 2                                   # bare value override

    class SubB(Mixin, Base):
        cfg = Parameter(readonly=True)

        def calc(self, a, b):                      # command overridden by a plain method
            return [b]

    class SubC(SubA, Mixin):
        mode = Parameter(datatype=EnumType(a=1, b=2, c=3))
        extra = None                               # removed

    class Other(Drivable):
        value = Parameter('v', FloatRange(0, 10, unit='K'), default=1)

    # module properties overridden by bare values at two levels of one chain, and by two siblings
    class Mid(Base):
        group = 'cryo'
        slowinterval = 30

    class Leaf(Mid):
        group = 'magnet'
        slowinterval = 60

    class Sib1(Mid):
        visibility = 'expert'

    class Sib2(Mid):
        visibility = 'advanced'
        group = 'sib2'
    return dict(base=Base, suba=SubA, subb=SubB, subc=SubC, other=Other, mid=Mid, leaf=Leaf, sib1=Sib1, sib2=Sib2)


EXPECTED_PROPS = dict(mid={'group': 'cryo', 'slowinterval': 30}, leaf={'group': 'magnet', 'slowinterval': 60},
                      sib1={'group': 'cryo', 'visibility': 'expert', 'slowinterval': 30}, sib2={'group': 'sib2', 'visibility': 'advanced'},
                      base={}, suba={}, subb={}, subc={}, other={})


def _class_accessibles(classes):
    return [list(c.accessibles.values()) for c in classes.values()]


def gen_module_init(tier, rng):
    """9 generated classes (single / multiple inheritance, mixin, overrides by Parameter(), bare value, None, plain method)
    instantiated in every order, with and without configuration overrides; each instantiation is one case"""
    from bounded import nodelib
    import types
    orders = [tuple(rng.sample(['base', 'suba', 'subb', 'subc', 'other', 'mid', 'leaf', 'sib1', 'sib2'], 9)) for _ in range(200)]
    if tier == 'quick':
        orders = rng.sample(orders, 12)
    cfgs = [{}, {'value': {'max': 3}}, {'mode': {'value': 2}}]
    for order in orders:
        classes = _hierarchy()
        srv = types.SimpleNamespace(dispatcher=types.SimpleNamespace(announce_update=lambda m, p: None),
                                    secnode=types.SimpleNamespace(equipment_id='verif', name='node'))
        made = []

        def describe():
            return json.dumps([[n, {k: a.for_export() for k, a in m.accessibles.items()}] for n, m in made], default=repr, sort_keys=True)
        for i, name in enumerate(order):
            cls = classes[name]
            cfg = dict(rng.choice(cfgs) if 'value' in cls.accessibles else {}, description='d')
            if name == 'other' and 'mode' in cfg:
                cfg = {'description': 'd'}
            obj = cls.__new__(cls)          # Module.__new__ creates the instance of the wrapper class
            others = _class_accessibles(classes) + [list(m.accessibles.values()) for _n, m in made]
            before = describe()
            yield dict(label=f'order={order} create {name} cfg={cfg}', self=obj,
                       args={'name': f'{name}{i}', 'logger': nodelib.quiet_logger(), 'cfgdict': cfg, 'srv': srv},
                       ghosts={'other_accessibles': others, 'descriptions_before': before, 'DESCRIBE': describe,
                               'expected_props': EXPECTED_PROPS[name]})
            if hasattr(obj, 'accessibles') and isinstance(getattr(obj, 'name', None), str):
                made.append((name, obj))
                # a run-time mutation of this instance must not show anywhere else (checked by the next case's `before`)
                for a in obj.accessibles.values():
                    dt = getattr(a, 'datatype', None)
                    if hasattr(dt, 'max') and isinstance(getattr(dt, 'max'), float):
                        dt.max = dt.max / 2
                        break


def gen_clone(which):
    def gen(tier, rng):
        """the accessibles of the generated classes, cloned with their own and with foreign property sets"""
        classes = _hierarchy()
        from frappy.params import Command, Parameter
        want = Command if which == 'Command' else Parameter
        accs = [a for c in classes.values() for a in c.accessibles.values() if type(a) is want]
        for a in accs:
            for props in [a.propertyValues] + [b.propertyValues for b in accs[:3]]:
                yield dict(label=f'{a.name} clone({sorted(props)})', self=a, args={'properties': dict(props)})
    return gen


def gen_class_definitions(tier, rng):
    """class definition sequences: a Parameter(max=..) override followed by a bare-value override further down, a partial Parameter
    in a mixin used with two different bases, siblings defined after such chains - every valid order of the definitions"""
    import itertools
    from frappy.modules import Module, Parameter
    from frappy.modulebase import HasAccessibles
    from frappy.datatypes import FloatRange, IntRange
    F010 = {'type': 'double', 'min': 0.0, 'max': 10.0}
    F05 = {'type': 'double', 'min': 0.0, 'max': 5.0}
    I05 = {'type': 'int', 'min': 0, 'max': 5}
    # name -> (bases, namespace factory, expected datainfo of x)
    SPECS = {
        'A': ((), lambda: {'x': Parameter('x', FloatRange(0, 10), default=1)}, F010, 'Module'),
        'A2': ((), lambda: {'x': Parameter('x2', IntRange(0, 100), default=1)}, {'type': 'int', 'min': 0, 'max': 100}, 'Module'),
        'B': (('A',), lambda: {'x': Parameter(max=5)}, F05, None),
        'C': (('B',), lambda: {'x': 3}, F05, None),
        'D': (('A',), lambda: {}, F010, None),
        'E': (('A',), lambda: {'x': 2}, F010, None),
        'Mixin': ((), lambda: {'x': Parameter(max=5)}, None, 'HasAccessibles'),
        'M1': (('Mixin', 'A'), lambda: {}, F05, None),
        'M2': (('Mixin', 'A2'), lambda: {}, I05, None),
    }
    names = list(SPECS)
    orders = []
    for _ in range(40 if tier == 'quick' else 300):
        o = rng.sample(names, len(names))
        # a class can only be defined after its bases
        done, fixed = set(), []
        pending = list(o)
        while pending:
            for n in pending:
                if all(b in done for b in SPECS[n][0]):
                    fixed.append(n)
                    done.add(n)
                    pending.remove(n)
                    break
        orders.append(fixed)
    roots = {'Module': Module, 'HasAccessibles': HasAccessibles}
    for order in orders:
        defined = {}

        def describe():
            def info(acc):
                try:
                    return acc.datatype.export_datatype()
                except Exception:
                    return repr(getattr(acc, 'datatype', None))      # a partial Parameter (mixin) has no exportable datatype yet
            return {n: {a: (info(acc), getattr(acc, 'description', None))
                        for a, acc in c.accessibles.items() if a == 'x'} for n, c in defined.items() if hasattr(c, 'accessibles')}
        for n in order:
            bases, ns, expect, root = SPECS[n]
            bs = tuple(defined[b] for b in bases) or (roots[root],)
            if root == 'Module' or (bases and any(issubclass(b, Module) for b in bs)):
                pass
            before = describe()
            box = {}

            def call(n=n, bs=bs, ns=ns, box=box):
                box['cls'] = type(n, bs, dict(ns(), __module__=__name__))
            yield dict(label=f'order={order} define {n}({", ".join(bases)})', self=None, args={}, call=call,
                       ghosts={'descriptions_before': before, 'CLASS_DESCRIPTIONS': describe, 'NEW_CLASS': lambda box=box: box['cls'],
                               'expected_datainfo': {'x': expect} if expect else {}, 'mixin_users': ('Mixin', 'M1', 'M2')},
                       finding_keys={'ensures.mixin_users_unchanged': 'C09-mixin-partial-parameter-shared'} if n in ('M1', 'M2') else {})
            if 'cls' in box:
                defined[n] = box['cls']


GENS = {'HasAccessibles.__init_subclass__': gen_class_definitions, 'Module.__init__': gen_module_init, 'Command.clone': gen_clone('Command'), 'Parameter.clone': gen_clone('Parameter')}
