"""input generators of the bounded tier for contracts/isolation.py (C09): generated class hierarchies"""
import itertools
import json

C = None


def _hierarchy():
    from frappy.modules import Module, Readable, Drivable, Parameter, Command
    from frappy.datatypes import FloatRange, IntRange, EnumType, StructOf, ArrayOf, StringType, TupleOf

    class Base(Readable):
        value = Parameter('v', FloatRange(0, 10, unit='K'), default=1)
        mode = Parameter('m', EnumType(a=1, b=2), default=1, readonly=False)
        cfg = Parameter('s', StructOf(x=IntRange(0, 5), y=StringType()), default={'x': 1, 'y': ''}, readonly=False)

        @Command(TupleOf(IntRange(0, 5), StringType()), result=ArrayOf(IntRange(), 0, 3))
        def calc(self, a, b):
            """c"""
            return [a]

    class Mixin:
        extra = Parameter('e', ArrayOf(FloatRange(0, 1), 0, 4), default=(), readonly=False)

    class SubA(Base):
        value = Parameter(datatype=FloatRange(0, 5, unit='K'))
        mode = 2                                   # bare value override

    class SubB(Mixin, Base):
        cfg = Parameter(readonly=True)

        def calc(self, a, b):                      # command overridden by a plain method
            return [b]

    class SubC(SubA, Mixin):
        mode = Parameter(datatype=EnumType(a=1, b=2, c=3))
        extra = None                               # removed

    class Other(Drivable):
        value = Parameter('v', FloatRange(0, 10, unit='K'), default=1)
    return dict(base=Base, suba=SubA, subb=SubB, subc=SubC, other=Other)


def _class_accessibles(classes):
    return [list(c.accessibles.values()) for c in classes.values()]


def gen_module_init(tier, rng):
    """5 generated classes (single / multiple inheritance, mixin, overrides by Parameter(), bare value, None, plain method)
    instantiated in every order, with and without configuration overrides; each instantiation is one case"""
    from bounded import nodelib
    import types
    orders = list(itertools.permutations(['base', 'suba', 'subb', 'subc', 'other']))
    if tier == 'quick':
        orders = rng.sample(orders, 12)
    cfgs = [{}, {'value': {'max': 3}}, {'mode': {'value': 2}}]
    for order in orders:
        classes = _hierarchy()
        srv = types.SimpleNamespace(dispatcher=types.SimpleNamespace(announce_update=lambda m, p: None),
                                    secnode=types.SimpleNamespace(equipment_id='verif', name='node'))
        made = []

        def describe():
            return json.dumps([[n, {k: a.for_export() for k, a in m.accessibles.items()}] for n, m in made], default=repr, sort_keys=True)
        for i, name in enumerate(order):
            cls = classes[name]
            cfg = dict(rng.choice(cfgs) if 'value' in cls.accessibles else {}, description='d')
            if name == 'other' and 'mode' in cfg:
                cfg = {'description': 'd'}
            obj = cls.__new__(cls)          # Module.__new__ creates the instance of the wrapper class
            others = _class_accessibles(classes) + [list(m.accessibles.values()) for _n, m in made]
            before = describe()
            yield dict(label=f'order={order} create {name} cfg={cfg}', self=obj,
                       args={'name': f'{name}{i}', 'logger': nodelib.quiet_logger(), 'cfgdict': cfg, 'srv': srv},
                       ghosts={'other_accessibles': others, 'descriptions_before': before, 'DESCRIBE': describe})
            if hasattr(obj, 'accessibles') and isinstance(getattr(obj, 'name', None), str):
                made.append((name, obj))
                # a run-time mutation of this instance must not show anywhere else (checked by the next case's `before`)
                for a in obj.accessibles.values():
                    dt = getattr(a, 'datatype', None)
                    if hasattr(dt, 'max') and isinstance(getattr(dt, 'max'), float):
                        dt.max = dt.max / 2
                        break


def gen_clone(which):
    def gen(tier, rng):
        """the accessibles of the generated classes, cloned with their own and with foreign property sets"""
        classes = _hierarchy()
        from frappy.params import Command, Parameter
        want = Command if which == 'Command' else Parameter
        accs = [a for c in classes.values() for a in c.accessibles.values() if type(a) is want]
        for a in accs:
            for props in [a.propertyValues] + [b.propertyValues for b in accs[:3]]:
                yield dict(label=f'{a.name} clone({sorted(props)})', self=a, args={'properties': dict(props)})
    return gen


GENS = {'Module.__init__': gen_module_init, 'Command.clone': gen_clone('Command'), 'Parameter.clone': gen_clone('Parameter')}
