"""input generators of the bounded tier for contracts/comm.py (C16): reply streams in every segmentation"""
import itertools

C = None


def _conn(eol, chunks, rx):
    from frappy.lib.asynconn import AsynConn

    class Fake(AsynConn):
        def __new__(cls, *a, **k):
            return object.__new__(cls)

        def __init__(self):       # pylint: disable=super-init-not-called
            self.end_of_line = eol
            self._rxbuffer = b''
            self.timeout = 1
            self.chunks = list(chunks)

        def recv(self):
            if not self.chunks:
                return b''
            c = self.chunks.pop(0)
            rx.append(c)
            return c
    return Fake()


def _segmentations(s, rng, extra):
    n = len(s)
    yield [s]
    if n > 1:
        yield [s[i:i + 1] for i in range(n)]
        for i in range(1, n):
            yield [s[:i], s[i:]]
        for _ in range(extra):
            cuts = sorted(rng.sample(range(1, n), min(n - 1, rng.randint(2, 4))))
            yield [s[a:b] for a, b in zip([0] + cuts, cuts + [n])]


def gen_readline(tier, rng):
    """reply streams over {a, CR, LF, ;} up to length 6 with end_of_line LF / CRLF / ';;' in every 1-/2-way and some n-way
    segmentation (empty chunks = receive timeouts included); each readline of the history is one case; with and without timeout"""
    alphabet = (b'a', b'\r', b'\n', b';')
    for eol in (b'\n', b'\r\n', b';;'):
        for n in range(0, 6 if tier == 'quick' else 7):
            for t in itertools.product(alphabet, repeat=n):
                s = b''.join(t)
                if eol == b'\n' and n > 4 and tier == 'quick':
                    continue
                for chunks in _segmentations(s, rng, 2 if tier == 'quick' else 8):
                    for timeout in (None, 0.000001):
                        rx = []
                        conn = _conn(eol, chunks, rx)
                        for _ in range(4):
                            yield dict(label=f'eol={eol!r} chunks={chunks!r} timeout={timeout}', self=conn, args={'timeout': timeout},
                                       ghosts={'rx': rx})
                            if not conn.chunks and eol not in conn._rxbuffer:
                                break


def gen_readbytes(tier, rng):
    """fixed-size replies: streams up to length 6, every segmentation, nbytes 0..4"""
    for n in range(0, 6):
        s = bytes(range(65, 65 + n))
        for chunks in _segmentations(s, rng, 2):
            for nb in range(0, 5):
                rx = []
                conn = _conn(b'\n', chunks, rx)
                for _ in range(3):
                    yield dict(label=f'chunks={chunks!r} nbytes={nb}', self=conn, args={'nbytes': nb}, ghosts={'rx': rx})


GENS = {'AsynConn.readline': gen_readline, 'AsynConn.readbytes': gen_readbytes}
