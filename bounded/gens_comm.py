"""input generators of the bounded tier for contracts/comm.py (C16): reply streams in every segmentation"""
import itertools

C = None


def _conn(eol, chunks, rx):
    from frappy.lib.asynconn import AsynConn

    class Fake(AsynConn):
        def __new__(cls, *a, **k):
            return object.__new__(cls)

        def __init__(self):       # pylint: disable=super-init-not-called
            self.end_of_line = eol
            self._rxbuffer = b''
            self.timeout = 1
            self.chunks = list(chunks)

        def recv(self):
            if not self.chunks:
                return b''
            c = self.chunks.pop(0)
            rx.append(c)
            return c
    return Fake()


def _segmentations(s, rng, extra):
    n = len(s)
    yield [s]
    if n > 1:
        yield [s[i:i + 1] for i in range(n)]
        for i in range(1, n):
            yield [s[:i], s[i:]]
        for _ in range(extra):
            cuts = sorted(rng.sample(range(1, n), min(n - 1, rng.randint(2, 4))))
            yield [s[a:b] for a, b in zip([0] + cuts, cuts + [n])]


def gen_readline(tier, rng):
    """reply streams over {a, CR, LF, ;} up to length 6 with end_of_line LF / CRLF / ';;' in every 1-/2-way and some n-way
    segmentation (empty chunks = receive timeouts included); each readline of the history is one case; with and without timeout"""
    alphabet = (b'a', b'\r', b'\n', b';')
    for eol in (b'\n', b'\r\n', b';;'):
        for n in range(0, 6 if tier == 'quick' else 7):
            for t in itertools.product(alphabet, repeat=n):
                s = b''.join(t)
                if eol == b'\n' and n > 4 and tier == 'quick':
                    continue
                for chunks in _segmentations(s, rng, 2 if tier == 'quick' else 8):
                    for timeout in (None, 0.000001):
                        rx = []
                        conn = _conn(eol, chunks, rx)
                        for _ in range(4):
                            yield dict(label=f'eol={eol!r} chunks={chunks!r} timeout={timeout}', self=conn, args={'timeout': timeout},
                                       ghosts={'rx': rx})
                            if not conn.chunks and eol not in conn._rxbuffer:
                                break


def gen_readbytes(tier, rng):
    """fixed-size replies: streams up to length 6, every segmentation, nbytes 0..4"""
    for n in range(0, 6):
        s = bytes(range(65, 65 + n))
        for chunks in _segmentations(s, rng, 2):
            for nb in range(0, 5):
                rx = []
                conn = _conn(b'\n', chunks, rx)
                for _ in range(3):
                    yield dict(label=f'chunks={chunks!r} nbytes={nb}', self=conn, args={'nbytes': nb}, ghosts={'rx': rx})


def gen_communicate(tier, rng):
    """line communicator over a scripted device in virtual time: wait_before 0 / 0.05 / 0.2 s, a stale line (late reply of an earlier
    command or unsolicited) arriving before the call, at several offsets inside the wait_before window, or never; reply delays below
    and above the timeout"""
    import types
    import frappy.io as FIO
    import frappy.lib.asynconn as FA
    from bounded import nodelib
    import time as real_time

    class Clock:
        now = 100.0
    clock = Clock()

    class VTime:
        def time(self):
            return clock.now

        def sleep(self, t):
            clock.now += max(t, 0)

        def __getattr__(self, name):
            return getattr(real_time, name)

    class Dev(FA.AsynConn):
        """a device: lines become readable at scripted virtual times; a command is answered `delay` seconds after it was sent"""
        scheme = 'verifdev'

        def __init__(self, uri, end_of_line=b'\n', default_settings=None):
            super().__init__(uri, end_of_line, default_settings)
            self.timeout = 0.05
            self.incoming = []          # (time, bytes)
            self.sent = []
            self.delay = 0.01
            self.connection = True

        def _avail(self):
            out = b''.join(d for t, d in self.incoming if t <= clock.now)
            self.incoming = [(t, d) for t, d in self.incoming if t > clock.now]
            return out

        def send(self, data):
            self.sent.append((clock.now, data))
            cmd = data.strip()
            self.incoming.append((clock.now + self.delay, b'reply-to-' + cmd + b'\n'))

        def recv(self):
            data = self._avail()
            if data:
                return data
            nxt = min([t for t, _ in self.incoming] + [clock.now + self.timeout])
            clock.now = min(nxt, clock.now + self.timeout)
            return self._avail()

        def flush_recv(self):
            return self._avail()

        def disconnect(self):
            self.connection = None

    saved = (FIO.time, FA.time)
    FIO.time, FA.time = VTime(), VTime()
    try:
        for wait_before in (0.0, 0.05, 0.2):
            for stale_offset in (None, -1.0, -0.001, 0.0, 0.01, wait_before / 2, wait_before * 0.99, wait_before + 0.002):
                for delay in (0.01, 0.3, 5.0):
                    srv = nodelib.Srv([nodelib.mod('io', FIO.StringIO, uri='verifdev://x', wait_before=wait_before, timeout=1.0)])
                    io = srv.secnode.modules['io']
                    io.connectStart()
                    conn = io._conn
                    conn.delay = delay
                    call_time = clock.now
                    if stale_offset is not None:
                        conn.incoming.append((call_time + stale_offset, b'STALE\n'))
                    stale_in_time = stale_offset is not None and stale_offset <= wait_before
                    # the reply must be the device's answer to this command; when the device is slower than the timeout an error is fine;
                    # a stale line arriving after the command was sent is indistinguishable from a reply (not the communicator's fault)
                    if stale_offset is not None and not stale_in_time:
                        continue
                    expected = 'reply-to-fast?' if delay < 1.0 else None
                    yield dict(label=f'wait_before={wait_before} stale@{stale_offset} delay={delay}', self=io, args={'command': 'fast?'},
                               ghosts={'expected_reply': expected, 'call_time': call_time,
                                       'first_send_time': types.SimpleNamespace(conn=conn)},
                               call=lambda io=io: io.communicate('fast?'))
    finally:
        FIO.time, FA.time = saved


def gen_reconnect(tier, rng):
    """line communicator on a device that can refuse connections, drop an open connection, and come back, in virtual time: three scripted and random
    histories (length 10..14) of {communicate, wait 1 / 4 / 11 s, device down, device up, drop the open connection}; reconnect interval 10 s;
    two registered reconnect callbacks; each communicate() call is one evaluated case"""
    import types
    import frappy.io as FIO
    import frappy.lib.asynconn as FA
    from bounded import nodelib
    import time as real_time
    from frappy.errors import CommunicationFailedError
    C.CommunicationFailedError = CommunicationFailedError

    class Clock:
        now = 1000.0
    clock = Clock()

    class VTime:
        def time(self):
            return clock.now

        def sleep(self, t):
            clock.now += max(t, 0)

        def __getattr__(self, name):
            return getattr(real_time, name)

    world = types.SimpleNamespace(up=True, attempts=[], cb_calls=[], reconnects=0, ever_connected=False, live=None)

    class Dev(FA.AsynConn):
        scheme = 'verifrc'

        def __init__(self, uri, end_of_line=b'\n', default_settings=None):
            world.attempts.append(clock.now)
            if not world.up:
                raise ConnectionRefusedError('device is down')
            super().__init__(uri, end_of_line, default_settings)
            self.timeout = 0.05
            self.pending = b''
            self.dropped = False
            self.connection = True
            if world.ever_connected:
                world.reconnects += 1
            world.ever_connected = True
            world.live = self

        def send(self, data):
            if self.dropped or not world.up:
                raise FA.ConnectionClosed('dropped')
            self.pending += b'reply-to-' + data.strip() + b'\n'

        def recv(self):
            if self.dropped or not world.up:
                raise FA.ConnectionClosed('dropped')
            data, self.pending = self.pending, b''
            if not data:
                clock.now += self.timeout
            return data

        def flush_recv(self):
            data, self.pending = self.pending, b''
            return data

        def disconnect(self):
            self.connection = None

    saved = (FIO.time, FA.time)
    FIO.time, FA.time = VTime(), VTime()
    try:
        for h in range(60 if tier == 'quick' else 600):
            world.up, world.attempts, world.cb_calls, world.reconnects, world.ever_connected, world.live = True, [], [], 0, False, None
            clock.now += 100
            srv = nodelib.Srv([nodelib.mod('io', FIO.StringIO, uri='verifrc://x', timeout=1.0, pollinterval=10)])
            io = srv.secnode.modules['io']
            io.registerReconnectCallback('a', lambda: world.cb_calls.append(0) or True)
            io.registerReconnectCallback('b', lambda: world.cb_calls.append(1) or True)
            world.attempts.clear()
            io.connectStart()
            world.attempts.clear()      # the connect at start-up is not made on behalf of a communicate() call
            scripted = [['drop', 'comm', 'wait11', 'comm', 'drop', 'comm', 'wait1', 'comm', 'wait4', 'comm', 'wait11', 'comm'],
                        ['down', 'comm', 'wait11', 'comm', 'wait1', 'comm', 'up', 'wait4', 'comm', 'wait11', 'comm', 'comm'],
                        ['drop', 'comm', 'wait11', 'down', 'comm', 'up', 'wait1', 'comm', 'wait11', 'comm', 'drop', 'comm', 'wait4', 'comm']]
            steps = scripted[h] if h < len(scripted) else [rng.choice(['comm', 'comm', 'comm', 'wait1', 'wait4', 'wait11', 'down', 'up', 'drop'])
                                                             for _ in range(10)]
            for step, kind in enumerate(steps):
                if kind.startswith('wait'):
                    clock.now += float(kind[4:])
                    continue
                if kind == 'down':
                    world.up = False
                    continue
                if kind == 'up':
                    world.up = True
                    continue
                if kind == 'drop':
                    if world.live is not None:
                        world.live.dropped = True
                    continue
                # what must happen: connected and alive -> the reply; otherwise an error, except that a reconnect may succeed
                alive = io.is_connected and world.live is not None and not world.live.dropped and world.up
                may_reconnect = (not io.is_connected) and world.up and clock.now >= (world.attempts[-1] if world.attempts else 0) + io.pollinterval
                expected = 'reply-to-q?' if alive or may_reconnect else None
                yield dict(label=f'history {h} step {step}: communicate at t={clock.now - 1000:.1f} up={world.up} connected={bool(io.is_connected)}',
                           self=io, args={}, call=lambda io=io: io.communicate('q?'),
                           ghosts={'world': world, 'expected_reply': expected})
    finally:
        FIO.time, FA.time = saved


GENS = {'IOBase.check_connection': gen_reconnect, 'StringIO.communicate': gen_communicate, 'AsynConn.readline': gen_readline, 'AsynConn.readbytes': gen_readbytes}
