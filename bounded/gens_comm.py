"""input generators of the bounded tier for contracts/comm.py (C16): reply streams in every segmentation"""
import itertools

C = None


def _conn(eol, chunks, rx):
    from frappy.lib.asynconn import AsynConn

    class Fake(AsynConn):
        def __new__(cls, *a, **k):
            return object.__new__(cls)

        def __init__(self):       # pylint: disable=super-init-not-called
            self.end_of_line = eol
            self._rxbuffer = b''
            self.timeout = 1
            self.chunks = list(chunks)

        def recv(self):
            if not self.chunks:
                return b''
            c = self.chunks.pop(0)
            rx.append(c)
            return c
    return Fake()


def _segmentations(s, rng, extra):
    n = len(s)
    yield [s]
    if n > 1:
        yield [s[i:i + 1] for i in range(n)]
        for i in range(1, n):
            yield [s[:i], s[i:]]
        for _ in range(extra):
            cuts = sorted(rng.sample(range(1, n), min(n - 1, rng.randint(2, 4))))
            yield [s[a:b] for a, b in zip([0] + cuts, cuts + [n])]


def gen_readline(tier, rng):
    """reply streams over {a, CR, LF, ;} up to length 6 with end_of_line LF / CRLF / ';;' in every 1-/2-way and some n-way
    segmentation (empty chunks = receive timeouts included); each readline of the history is one case; with and without timeout"""
    alphabet = (b'a', b'\r', b'\n', b';')
    for eol in (b'\n', b'\r\n', b';;'):
        for n in range(0, 6 if tier == 'quick' else 7):
            for t in itertools.product(alphabet, repeat=n):
                s = b''.join(t)
                if eol == b'\n' and n > 4 and tier == 'quick':
                    continue
                for chunks in _segmentations(s, rng, 2 if tier == 'quick' else 8):
                    for timeout in (None, 0.000001):
                        rx = []
                        conn = _conn(eol, chunks, rx)
                        for _ in range(4):
                            yield dict(label=f'eol={eol!r} chunks={chunks!r} timeout={timeout}', self=conn, args={'timeout': timeout},
                                       ghosts={'rx': rx})
                            if not conn.chunks and eol not in conn._rxbuffer:
                                break


def gen_readbytes(tier, rng):
    """fixed-size replies: streams up to length 6, every segmentation, nbytes 0..4"""
    for n in range(0, 6):
        s = bytes(range(65, 65 + n))
        for chunks in _segmentations(s, rng, 2):
            for nb in range(0, 5):
                rx = []
                conn = _conn(b'\n', chunks, rx)
                for _ in range(3):
                    yield dict(label=f'chunks={chunks!r} nbytes={nb}', self=conn, args={'nbytes': nb}, ghosts={'rx': rx})


def gen_communicate(tier, rng):
    """line communicator over a scripted device in virtual time: wait_before 0 / 0.05 / 0.2 s, a stale line (late reply of an earlier
    command or unsolicited) arriving before the call, at several offsets inside the wait_before window, or never; reply delays below
    and above the timeout"""
    import types
    import frappy.io as FIO
    import frappy.lib.asynconn as FA
    from bounded import nodelib
    import time as real_time

    class Clock:
        now = 100.0
    clock = Clock()

    class VTime:
        def time(self):
            return clock.now

        def sleep(self, t):
            clock.now += max(t, 0)

        def __getattr__(self, name):
            return getattr(real_time, name)

    class Dev(FA.AsynConn):
        """a device: lines become readable at scripted virtual times; a command is answered `delay` seconds after it was sent"""
        scheme = 'verifdev'

        def __init__(self, uri, end_of_line=b'\n', default_settings=None):
            super().__init__(uri, end_of_line, default_settings)
            self.timeout = 0.05
            self.incoming = []          # (time, bytes)
            self.sent = []
            self.delay = 0.01
            self.connection = True

        def _avail(self):
            out = b''.join(d for t, d in self.incoming if t <= clock.now)
            self.incoming = [(t, d) for t, d in self.incoming if t > clock.now]
            return out

        def send(self, data):
            self.sent.append((clock.now, data))
            cmd = data.strip()
            self.incoming.append((clock.now + self.delay, b'reply-to-' + cmd + b'\n'))

        def recv(self):
            data = self._avail()
            if data:
                return data
            nxt = min([t for t, _ in self.incoming] + [clock.now + self.timeout])
            clock.now = min(nxt, clock.now + self.timeout)
            return self._avail()

        def flush_recv(self):
            return self._avail()

        def disconnect(self):
            self.connection = None

    saved = (FIO.time, FA.time)
    FIO.time, FA.time = VTime(), VTime()
    try:
        for wait_before in (0.0, 0.05, 0.2):
            for stale_offset in (None, -1.0, -0.001, 0.0, 0.01, wait_before / 2, wait_before * 0.99, wait_before + 0.002):
                for delay in (0.01, 0.3, 5.0):
                    srv = nodelib.Srv([nodelib.mod('io', FIO.StringIO, uri='verifdev://x', wait_before=wait_before, timeout=1.0)])
                    io = srv.secnode.modules['io']
                    io.connectStart()
                    conn = io._conn
                    conn.delay = delay
                    call_time = clock.now
                    if stale_offset is not None:
                        conn.incoming.append((call_time + stale_offset, b'STALE\n'))
                    stale_in_time = stale_offset is not None and stale_offset <= wait_before
                    # the reply must be the device's answer to this command; when the device is slower than the timeout an error is fine;
                    # a stale line arriving after the command was sent is indistinguishable from a reply (not the communicator's fault)
                    if stale_offset is not None and not stale_in_time:
                        continue
                    expected = 'reply-to-fast?' if delay < 1.0 else None
                    yield dict(label=f'wait_before={wait_before} stale@{stale_offset} delay={delay}', self=io, args={'command': 'fast?'},
                               ghosts={'expected_reply': expected, 'call_time': call_time,
                                       'first_send_time': types.SimpleNamespace(conn=conn)},
                               call=lambda io=io: io.communicate('fast?'))
    finally:
        FIO.time, FA.time = saved


GENS = {'StringIO.communicate': gen_communicate, 'AsynConn.readline': gen_readline, 'AsynConn.readbytes': gen_readbytes}
