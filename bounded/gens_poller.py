"""input generators of the bounded tier for contracts/poller.py (C13, C15): the real poll thread body run in virtual time"""
import types

C = None


class Clock:
    def __init__(self):
        self.now = 1000.0
        self.seq = 0


class Trigger:
    """the thread's event: wait(t) advances the virtual clock; after t_end it empties the module list (shutdown)"""
    def __init__(self, clock, modules, t_end):
        self.clock, self.modules, self.t_end, self.waits, self.actions = clock, modules, t_end, 0, []

    def wait(self, timeout=None):
        self.waits += 1
        self.clock.now += max(timeout or 0, 0.001)
        # scripted run-time actions (interval changes, fast polling) happen while the thread sleeps
        while self.actions and self.actions[0][0] <= self.clock.now:
            _t, act = self.actions.pop(0)
            act()
        if self.clock.now >= self.t_end or self.waits > 20000:
            del self.modules[:]
        return False

    def set(self):
        pass

    def clear(self):
        pass

    def is_set(self):
        return False


class TimeProxy:
    def __init__(self, clock, real, modules=None, t_end=None):
        self.clock, self.real, self.modules, self.t_end, self.looks = clock, real, modules, t_end, 0

    def time(self):
        # every look at the clock costs a little: the thread cannot spin at one instant
        self.clock.now += 1e-4
        self.looks += 1
        if self.modules is not None and (self.clock.now >= self.t_end or self.looks > 400000):
            del self.modules[:]          # shutdown, also when the thread never waits
        return self.clock.now

    def __getattr__(self, name):
        return getattr(self.real, name)


def _make_class(clock, log, spec):
    from frappy.modules import Readable, Parameter
    from frappy.datatypes import FloatRange
    from frappy.rwhandler import nopoll
    from frappy.errors import CommunicationFailedError, HardwareError

    def fail(kind):
        if kind == 'secop':
            raise HardwareError('scripted')
        if kind == 'com':
            raise CommunicationFailedError('scripted')
        if kind == 'plain':
            raise ZeroDivisionError('scripted')
        if kind == 'silent':
            e = HardwareError('silent')
            e.silent = True
            raise e

    class Dev(Readable):
        p1 = Parameter('p', FloatRange(), default=0)
        p2 = Parameter('p', FloatRange(), default=0)
        quiet = Parameter('never polled', FloatRange(), default=0)
        setp = Parameter('configured', FloatRange(), default=0, readonly=False)

        def _rd(self, name, polled=True):
            phase = 'init' if not self.init_done else ('main' if self.in_main else 'slow')
            clock.seq += 1
            log.append((clock.now, 'read', self.name, name, phase, polled, clock.seq))
            clock.now += self.cost_slow if phase == 'slow' else self.cost_main / 2
            fail(self.script.get((name, self.count.setdefault(name, 0) % 4)))
            self.count[name] += 1
            return float(self.count[name])

        def read_value(self):
            return self._rd('value')

        def read_status(self):
            self._rd('status')
            return (100, '')

        def read_p1(self):
            return self._rd('p1')

        def read_p2(self):
            return self._rd('p2')

        @nopoll
        def read_quiet(self):
            return self._rd('quiet', polled=False)

        def write_setp(self, v):
            clock.seq += 1
            log.append((clock.now, 'write', self.name, 'setp', None, None, clock.seq))
            return v

        def initialReads(self):
            clock.seq += 1
            log.append((clock.now, 'initialReads', self.name, None, None, None, clock.seq))
            self.init_done_pending = True

        def doPoll(self):
            clock.seq += 1
            log.append((clock.now, 'doPoll', self.name, None, None, None, clock.seq))
            self.init_done = True
            self.in_main = True
            try:
                fail(self.script.get(('doPoll', self.count.setdefault('doPoll', 0) % 5)))
                self.count['doPoll'] += 1
                super().doPoll()
            finally:
                self.in_main = False
    return Dev


SCENARIOS = [
    # (pollinterval, slowinterval, cost_main, cost_slow, enablePoll, configured value?, failure script)
    [(1.0, 4.0, 0.01, 0.01, True, True, {})],
    [(0.5, 2.0, 0.01, 0.02, True, False, {}), (2.0, 20.0, 0.01, 0.02, True, True, {})],
    [(1.0, 20.0, 0.01, 0.01, True, False, {}), (1.0, 2.0, 0.01, 0.01, True, False, {})],
    [(1.0, 4.0, 0.3, 0.2, True, True, {('value', 1): 'secop', ('p1', 0): 'plain', ('doPoll', 2): 'plain', ('status', 3): 'silent'}),
     (0.2, 3.0, 0.05, 0.05, True, False, {('p2', 1): 'com', ('value', 2): 'com'})],
    [(1.0, 4.0, 0.01, 0.01, True, True, {}), (1.0, 4.0, 0.01, 0.01, False, True, {})],
    [(0.1, 1.0, 0.2, 0.3, True, False, {}), (5.0, 10.0, 0.01, 0.01, True, True, {}), (1.0, 5.0, 0.0, 0.0, False, True, {}),
     (3.0, 7.0, 0.1, 0.1, True, False, {('doPoll', 0): 'secop', ('doPoll', 1): 'plain'})],
]


def gen_thread(tier, rng):
    """1..4 modules on one poll thread: poll intervals 0.1..5 s (shorter than a read too), slow intervals 1..20 s (different per module),
    read durations, failure scripts (SECoP, silent, arbitrary, communication errors), polled and unpolled modules with configured
    values; 60 (quick) / 200 virtual seconds"""
    import frappy.modulebase as FM
    from bounded import nodelib
    import time as real_time
    from frappy.config import Param
    t_run = 60.0 if tier == 'quick' else 200.0
    for sc in SCENARIOS:
        for owner, actions_for in [(o, a) for o in range(len(sc) if tier != 'quick' else 1) for a in (None, 0)]:
            clock, log = Clock(), []
            Dev = _make_class(clock, log, sc)
            mods = []
            for i, (pi, si, cm, cs, ep, conf, script) in enumerate(sc):
                cfg = dict(pollinterval=Param(pi), slowinterval=Param(si))
                if conf:
                    cfg['setp'] = Param(1.5)
                mods.append(nodelib.mod(f'm{i}', Dev if ep else type('DevNoPoll', (Dev,), {'enablePoll': False}), **cfg))
            srv = nodelib.Srv(mods)
            ms = [srv.secnode.modules[f'm{i}'] for i in range(len(sc))]
            for m, (pi, si, cm, cs, ep, conf, script) in zip(ms, sc):
                m.cost_main, m.cost_slow, m.script, m.count = cm, cs, script, {}
                m.init_done = m.in_main = False
                m.polled_names = ['value', 'status', 'p1', 'p2', 'setp', 'pollinterval'] if False else ['p1', 'p2']
                m.configured = ['setp'] if conf else []
                m.current_interval_max = m.current_interval_min = pi
                m.first_read_time = clock.now
            modules = list(ms)
            t_end = clock.now + t_run
            thread_owner = ms[owner % len(ms)]
            trig = Trigger(clock, modules, t_end)
            thread_owner.triggerPoll = trig
            # run-time changes on the first polled module: fast polling on, a new poll interval while fast polling, fast polling off
            # (only in scenarios flagged for it: the staleness bounds of the other clauses assume fixed intervals)
            for m in ms:
                m.settled_at = clock.now
            if actions_for is not None and ms[actions_for].enablePoll:
                tgt = ms[actions_for]
                t0 = clock.now
                new_interval = max(0.1, tgt.pollinterval / 4)      # shorter than before: a stale (longer) interval shows as late polls
                trig.actions = [(t0 + 10, lambda tgt=tgt: tgt.setFastPoll(True, 0.25)),
                                (t0 + 15, lambda tgt=tgt, v=new_interval: setattr(tgt, 'pollinterval', v)),
                                (t0 + 20, lambda tgt=tgt: tgt.setFastPoll(False))]
                tgt.current_interval_max = max(tgt.current_interval_max, new_interval)
                tgt.current_interval_min = min(tgt.current_interval_min, 0.25)
                tgt.settled_at = t0 + 20 + max(tgt.current_interval_max, 0.25) + 1
            saved = FM.time
            FM.time = TimeProxy(clock, real_time, modules, t_end)

            def started():
                clock.seq += 1
                log.append((clock.now, 'started', None, None, None, None, clock.seq))

            def call(owner=thread_owner, modules=modules):
                try:
                    return getattr(owner, '_Module__pollThread')(modules, started)
                finally:
                    FM.time = saved
            yield dict(label=f'scenario {SCENARIOS.index(sc)} thread of m{owner % len(ms)} actions={actions_for}: {[(x[0], x[1], x[4]) for x in sc]}', self=thread_owner, args={},
                       call=call, ghosts={'poll_log': log, 'all_modules': ms, 't_end': t_end})
            FM.time = saved


GENS = {'Module.__pollThread': gen_thread}
