"""input generators of the bounded tier for contracts/statemachine.py (C14): histories over state-function programs"""
import itertools

C = None


def _program(trace, kinds):
    """state functions a, b, c with scripted behaviours; the trace records (kind, function, init flag seen)"""
    from frappy.lib.statemachine import Retry, Finish
    fns = {}

    def make(name, behaviour, nxt):
        def state(sm):
            entry = ['state', fns[name], sm.init, 'other']
            trace.append(entry)
            if behaviour == 'retry':
                entry[3] = 'retry'
                return Retry
            if behaviour == 'finish':
                return Finish
            if behaviour == 'next':
                return fns[nxt]
            if behaviour == 'raise':
                raise ValueError('state failed')
            if behaviour == 'bad':
                return 42
            if behaviour == 'retry_then_next':
                sm.count = getattr(sm, 'count', 0) + 1
                if sm.count % 2:
                    entry[3] = 'retry'
                    return Retry
                return fns[nxt]
            if behaviour == 'loop':
                return fns[name]
        state.__name__ = name
        fns[name] = state
        return state
    make('a', kinds[0], 'b')
    make('b', kinds[1], 'c')
    make('c', kinds[2], 'a')

    def cleanup(sm):
        trace.append(('cleanup', cleanup, None, kinds[3] == 'cleanup_to_c'))
        return fns['c'] if kinds[3] == 'cleanup_to_c' else None
    return fns, cleanup


BEHAVIOURS = ['retry', 'finish', 'next', 'raise', 'bad', 'retry_then_next', 'loop']
OPS = ['cycle', 'start_a', 'start_b_attr', 'stop', 'cycle', 'cycle', 'cycle']


def gen_cycle(tier, rng):
    """programs of 3 state functions over 7 behaviours (retry, finish, next, raise, non-callable, alternate, self-loop) with / without a
    cleanup that continues in another state x random sequences (length 14) of {cycle, start(a), start(b, attr), stop};
    every cycle() call of the history is one case"""
    from frappy.lib.statemachine import StateMachine
    progs = list(itertools.product(BEHAVIOURS, repeat=3))
    rng.shuffle(progs)
    for kinds3 in progs[:120 if tier == 'quick' else 343]:
        for cl in ('cleanup_none', 'cleanup_to_c'):
            trace = []
            fns, cleanup = _program(trace, list(kinds3) + [cl])
            sm = StateMachine()
            sm.maxloops = 5
            pending, wanted, last_seen = None, None, [None]
            for step in range(14):
                op = rng.choice(OPS)
                if op == 'start_a':
                    sm.start(fns['a'], cleanup=cleanup)
                    pending, wanted = 'start', (fns['a'], {})
                    trace.append(('started', None, None, None))
                elif op == 'start_b_attr':
                    sm.start(fns['b'], cleanup=cleanup, tag=step)
                    pending, wanted = 'start', (fns['b'], {'tag': step})
                    trace.append(('started', None, None, None))
                elif op == 'stop':
                    sm.stop()
                    pending, wanted = 'stop', None
                else:
                    states = [e for e in trace if e[0] == 'state']
                    yield dict(label=f'{kinds3} {cl} step {step}: cycle (pending={pending})', self=sm, args={},
                               ghosts={'sm_calls': [], 'trace': trace, 'pending': pending, 'wanted': wanted,
                                       'cleaning_before': sm.cleanup_reason is not None, 'statefunc_before': sm.statefunc,
                                       'entered_fresh': bool(sm.init)})
                    pending = None


GENS = {'StateMachine.cycle': gen_cycle}
