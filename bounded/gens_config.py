"""input generators of the bounded tier for contracts/config.py (C10): real module classes created from configurations"""
C = None


def _cls(writes):
    from frappy.modules import Drivable, Parameter
    from frappy.datatypes import FloatRange, IntRange, StringType, EnumType

    class Dev(Drivable):
        value = Parameter('v', FloatRange(0, 10), default=0)
        target = Parameter('t', FloatRange(0, 10), default=1)
        speed = Parameter('s', FloatRange(0, 5), default=2.5, readonly=False)
        label = Parameter('l', StringType(), default='', readonly=False)
        count = Parameter('c', IntRange(0, 9), default=0, readonly=False)
        mode = Parameter('m', EnumType(a=0, b=1), default=0, readonly=False)
        nowrite = Parameter('n', FloatRange(), default=1.5, readonly=False)

        def write_target(self, v):
            writes.append(('target', v))
            return v

        def write_speed(self, v):
            writes.append(('speed', v))
            return v

        def write_label(self, v):
            writes.append(('label', v))
            return v

        def write_count(self, v):
            writes.append(('count', v))
            if v == 9:
                raise ValueError('hardware says no')
            return v

        def write_mode(self, v):
            writes.append(('mode', v))
            return v
    return Dev


# configured values incl. values equal to the declared default, boundary values, and a value the hardware refuses
LOGGED = {'target', 'speed', 'label', 'count', 'mode'}
CFGS = [{}, {'speed': 2.5}, {'speed': 0}, {'speed': 5.0, 'label': ''}, {'label': 'x', 'count': 0}, {'count': 9, 'mode': 1},
        {'mode': 0, 'target': 1}, {'target': 10, 'speed': 2.5, 'label': 'abc', 'count': 3, 'mode': 'b', 'nowrite': 2.0},
        {'nowrite': 1.5}, {'speed': {'value': 1.0, 'max': 2}}]


def _native_views():
    C.WROTE = lambda log, n: any(e[0] == n for e in log)


def gen_write_init(tier, rng):
    """module with 5 writable + 1 write-less parameters x configurations (values equal to the default, boundary values, refused values)"""
    from bounded import nodelib
    import types
    _native_views()
    for cfg in CFGS:
        writes = []
        Dev = _cls(writes)
        srv = types.SimpleNamespace(dispatcher=types.SimpleNamespace(announce_update=lambda m, p: None),
                                    secnode=types.SimpleNamespace(equipment_id='verif', name='node'))
        from frappy.config import Param
        full = {k: (Param(**v) if isinstance(v, dict) else Param(v)) for k, v in cfg.items()}
        m = Dev('m', nodelib.quiet_logger(), dict(full, description='d'), srv)
        yield dict(label=f'cfg={cfg}', self=m, args={}, ghosts={'driver_calls': writes, 'LOGGED': LOGGED})
        # a second call has nothing left to write
        yield dict(label=f'cfg={cfg} (again)', self=m, args={}, ghosts={'driver_calls': writes, 'LOGGED': LOGGED})


def _cfg_class():
    from frappy.modules import Module, Parameter
    from frappy.datatypes import FloatRange, IntRange, StringType, ArrayOf, BLOBType

    class Dev(Module):
        text = Parameter('s', StringType(maxchars=8), default='', readonly=False)
        arr = Parameter('a', ArrayOf(FloatRange(), 0, 3), default=(), readonly=False)
        blob = Parameter('b', BLOBType(0, 4), default=b'', readonly=False)
        num = Parameter('n', FloatRange(0, 10), default=1, readonly=False)
        cnt = Parameter('c', IntRange(0, 9), default=1, readonly=False)
    return Dev


# (parameter, configured properties, configured value): values valid under the class limits only, under the configured limits
# only, under both, under neither; unknown property names; wrong types
CONFIGS = [
    ('text', {}, 'abc'), ('text', {'maxchars': 4}, 'abcdef'), ('text', {'maxchars': 16}, 'abcdefghijkl'), ('text', {'maxchars': 16}, 'x' * 20),
    ('text', {'minchars': 3}, 'ab'), ('text', {'maxchars': 4}, 'abcd'), ('text', {}, 5), ('text', {'nosuchprop': 1}, 'a'),
    ('arr', {}, [1, 2, 3]), ('arr', {'maxlen': 5}, [1, 2, 3, 4, 5]), ('arr', {'maxlen': 2}, [1, 2, 3]), ('arr', {'minlen': 2}, [1]),
    ('arr', {}, [1, 2, 3, 4]), ('arr', {}, 'abc'),
    ('blob', {'maxbytes': 8}, b'abcdef'), ('blob', {'maxbytes': 2}, b'abc'), ('blob', {}, b'abc'), ('blob', {}, 'YWJj'),
    ('num', {'max': 5}, 7), ('num', {'max': 5}, 5), ('num', {'min': 2}, 1), ('num', {'min': 8, 'max': 2}, 5), ('num', {}, 'x'), ('num', {}, 11),
    ('cnt', {'max': 5}, 6), ('cnt', {}, 2.5), ('cnt', {}, 9),
    ('nosuchparam', {}, 1),
]


def gen_module_config(tier, rng):
    """one configured parameter at a time (28 combinations of property overrides and values over 5 datatypes, incl. unknown names)
    and random pairs of them: the oracle applies the overrides to a copy of the class datatype and validates the value"""
    import types
    from bounded import nodelib
    from frappy.config import Param
    combos = [[c] for c in CONFIGS]
    for _ in range(30 if tier == 'quick' else 200):
        a, b = rng.sample(CONFIGS, 2)
        if a[0] != b[0]:
            combos.append([a, b])
    for combo in combos:
        Dev = _cfg_class()
        cfg, reject, values, props = {'description': 'd'}, False, {}, {}
        for pname, overrides, value in combo:
            cfg[pname] = Param(value, **overrides)
            if pname not in Dev.accessibles:
                reject = True
                continue
            dt = Dev.accessibles[pname].datatype.copy()
            try:
                for k, v in overrides.items():
                    dt.setProperty(k, v)
                dt.checkProperties()
                values[pname] = dt(value)
                for k, v in overrides.items():
                    props[(pname, k)] = getattr(dt, k)
            except Exception:
                reject = True
        srv = types.SimpleNamespace(dispatcher=types.SimpleNamespace(announce_update=lambda m, p: None),
                                    secnode=types.SimpleNamespace(equipment_id='verif', name='node'))
        obj = Dev.__new__(Dev)
        yield dict(label=f'cfg={[(p, o, v) for p, o, v in combo]}', self=obj,
                   args={'name': 'm', 'logger': nodelib.quiet_logger(), 'cfgdict': cfg, 'srv': srv},
                   ghosts={'expect_reject': reject, 'expect_values': {} if reject else values, 'expect_props': {} if reject else props})


GENS = {'Module.__init__': gen_module_config,'Module.writeInitParams': gen_write_init}
