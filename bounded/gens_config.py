"""input generators of the bounded tier for contracts/config.py (C10): real module classes created from configurations"""
C = None


def _cls(writes):
    from frappy.modules import Drivable, Parameter
    from frappy.datatypes import FloatRange, IntRange, StringType, EnumType

    class Dev(Drivable):
        value = Parameter('v', FloatRange(0, 10), default=0)
        target = Parameter('t', FloatRange(0, 10), default=1)
        speed = Parameter('s', FloatRange(0, 5), default=2.5, readonly=False)
        label = Parameter('l', StringType(), default='', readonly=False)
        count = Parameter('c', IntRange(0, 9), default=0, readonly=False)
        mode = Parameter('m', EnumType(a=0, b=1), default=0, readonly=False)
        nowrite = Parameter('n', FloatRange(), default=1.5, readonly=False)

        def write_target(self, v):
            writes.append(('target', v))
            return v

        def write_speed(self, v):
            writes.append(('speed', v))
            return v

        def write_label(self, v):
            writes.append(('label', v))
            return v

        def write_count(self, v):
            writes.append(('count', v))
            if v == 9:
                raise ValueError('hardware says no')
            return v

        def write_mode(self, v):
            writes.append(('mode', v))
            return v
    return Dev


# configured values incl. values equal to the declared default, boundary values, and a value the hardware refuses
LOGGED = {'target', 'speed', 'label', 'count', 'mode'}
CFGS = [{}, {'speed': 2.5}, {'speed': 0}, {'speed': 5.0, 'label': ''}, {'label': 'x', 'count': 0}, {'count': 9, 'mode': 1},
        {'mode': 0, 'target': 1}, {'target': 10, 'speed': 2.5, 'label': 'abc', 'count': 3, 'mode': 'b', 'nowrite': 2.0},
        {'nowrite': 1.5}, {'speed': {'value': 1.0, 'max': 2}}]


def _native_views():
    C.WROTE = lambda log, n: any(e[0] == n for e in log)


def gen_write_init(tier, rng):
    """module with 5 writable + 1 write-less parameters x configurations (values equal to the default, boundary values, refused values)"""
    from bounded import nodelib
    import types
    _native_views()
    for cfg in CFGS:
        writes = []
        Dev = _cls(writes)
        srv = types.SimpleNamespace(dispatcher=types.SimpleNamespace(announce_update=lambda m, p: None),
                                    secnode=types.SimpleNamespace(equipment_id='verif', name='node'))
        from frappy.config import Param
        full = {k: (Param(**v) if isinstance(v, dict) else Param(v)) for k, v in cfg.items()}
        m = Dev('m', nodelib.quiet_logger(), dict(full, description='d'), srv)
        yield dict(label=f'cfg={cfg}', self=m, args={}, ghosts={'driver_calls': writes, 'LOGGED': LOGGED})
        # a second call has nothing left to write
        yield dict(label=f'cfg={cfg} (again)', self=m, args={}, ghosts={'driver_calls': writes, 'LOGGED': LOGGED})


GENS = {'Module.writeInitParams': gen_write_init}
