"""input generators of the bounded tier for contracts/config.py (C10): real module classes created from configurations"""
C = None


def _cls(writes):
    from frappy.modules import Drivable, Parameter
    from frappy.datatypes import FloatRange, IntRange, StringType, EnumType

    class Dev(Drivable):
        value = Parameter('v', FloatRange(0, 10), default=0)
        target = Parameter('t', FloatRange(0, 10), default=1)
        speed = Parameter('s', FloatRange(0, 5), default=2.5, readonly=False)
        label = Parameter('l', StringType(), default='', readonly=False)
        count = Parameter('c', IntRange(0, 9), default=0, readonly=False)
        mode = Parameter('m', EnumType(a=0, b=1), default=0, readonly=False)
        nowrite = Parameter('n', FloatRange(), default=1.5, readonly=False)

        def write_target(self, v):
            writes.append(('target', v))
            return v

        def write_speed(self, v):
            writes.append(('speed', v))
            return v

        def write_label(self, v):
            writes.append(('label', v))
            return v

        def write_count(self, v):
            writes.append(('count', v))
            if v == 9:
                raise ValueError('hardware says no')
            return v

        def write_mode(self, v):
            writes.append(('mode', v))
            return v
    return Dev


# configured values incl. values equal to the declared default, boundary values, and a value the hardware refuses
LOGGED = {'target', 'speed', 'label', 'count', 'mode'}
CFGS = [{}, {'speed': 2.5}, {'speed': 0}, {'speed': 5.0, 'label': ''}, {'label': 'x', 'count': 0}, {'count': 9, 'mode': 1},
        {'mode': 0, 'target': 1}, {'target': 10, 'speed': 2.5, 'label': 'abc', 'count': 3, 'mode': 'b', 'nowrite': 2.0},
        {'nowrite': 1.5}, {'speed': {'value': 1.0, 'max': 2}}]


def _native_views():
    C.WROTE = lambda log, n: any(e[0] == n for e in log)


def gen_write_init(tier, rng):
    """module with 5 writable + 1 write-less parameters x configurations (values equal to the default, boundary values, refused values)"""
    from bounded import nodelib
    import types
    _native_views()
    for cfg in CFGS:
        writes = []
        Dev = _cls(writes)
        srv = types.SimpleNamespace(dispatcher=types.SimpleNamespace(announce_update=lambda m, p: None),
                                    secnode=types.SimpleNamespace(equipment_id='verif', name='node'))
        from frappy.config import Param
        full = {k: (Param(**v) if isinstance(v, dict) else Param(v)) for k, v in cfg.items()}
        m = Dev('m', nodelib.quiet_logger(), dict(full, description='d'), srv)
        yield dict(label=f'cfg={cfg}', self=m, args={}, ghosts={'driver_calls': writes, 'LOGGED': LOGGED})
        # a second call has nothing left to write
        yield dict(label=f'cfg={cfg} (again)', self=m, args={}, ghosts={'driver_calls': writes, 'LOGGED': LOGGED})


def _cfg_class():
    from frappy.modules import Module, Parameter
    from frappy.datatypes import FloatRange, IntRange, StringType, ArrayOf, BLOBType

    class Dev(Module):
        text = Parameter('s', StringType(maxchars=8), default='', readonly=False)
        arr = Parameter('a', ArrayOf(FloatRange(), 0, 3), default=(), readonly=False)
        blob = Parameter('b', BLOBType(0, 4), default=b'', readonly=False)
        num = Parameter('n', FloatRange(0, 10), default=1, readonly=False)
        cnt = Parameter('c', IntRange(0, 9), default=1, readonly=False)
    return Dev


# (parameter, configured properties, configured value): values valid under the class limits only, under the configured limits
# only, under both, under neither; unknown property names; wrong types
CONFIGS = [
    ('text', {}, 'abc'), ('text', {'maxchars': 4}, 'abcdef'), ('text', {'maxchars': 16}, 'abcdefghijkl'), ('text', {'maxchars': 16}, 'x' * 20),
    ('text', {'minchars': 3}, 'ab'), ('text', {'maxchars': 4}, 'abcd'), ('text', {}, 5), ('text', {'nosuchprop': 1}, 'a'),
    ('arr', {}, [1, 2, 3]), ('arr', {'maxlen': 5}, [1, 2, 3, 4, 5]), ('arr', {'maxlen': 2}, [1, 2, 3]), ('arr', {'minlen': 2}, [1]),
    ('arr', {}, [1, 2, 3, 4]), ('arr', {}, 'abc'),
    ('blob', {'maxbytes': 8}, b'abcdef'), ('blob', {'maxbytes': 2}, b'abc'), ('blob', {}, b'abc'), ('blob', {}, 'YWJj'),
    ('num', {'max': 5}, 7), ('num', {'max': 5}, 5), ('num', {'min': 2}, 1), ('num', {'min': 8, 'max': 2}, 5), ('num', {}, 'x'), ('num', {}, 11),
    ('cnt', {'max': 5}, 6), ('cnt', {}, 2.5), ('cnt', {}, 9),
    ('nosuchparam', {}, 1),
    # limits of the MEMBERS set through the array parameter: inverted ones are rejected (stated expectation, not derived from the code)
    ('arr', {'min': 5, 'max': 3}, [4], True), ('arr', {'min': 2, 'max': 3}, [2.5], False),
]


def gen_module_config(tier, rng):
    """one configured parameter at a time (28 combinations of property overrides and values over 5 datatypes, incl. unknown names)
    and random pairs of them: the oracle applies the overrides to a copy of the class datatype and validates the value"""
    import types
    from bounded import nodelib
    from frappy.config import Param
    combos = [[c] for c in CONFIGS]
    for _ in range(30 if tier == 'quick' else 200):
        a, b = rng.sample([c for c in CONFIGS if len(c) == 3], 2)
        if a[0] != b[0]:
            combos.append([a, b])
    for combo in combos:
        Dev = _cfg_class()
        cfg, reject, values, props = {'description': 'd'}, False, {}, {}
        for pname, overrides, value, *stated in combo:
            cfg[pname] = Param(value, **overrides)
            if stated and stated[0]:
                reject = True
            if pname not in Dev.accessibles:
                reject = True
                continue
            dt = Dev.accessibles[pname].datatype.copy()
            try:
                for k, v in overrides.items():
                    dt.setProperty(k, v)
                dt.checkProperties()
                values[pname] = dt(value)
                for k, v in overrides.items():
                    if hasattr(dt, k):          # (member properties set through a container are not attributes of the container)
                        props[(pname, k)] = getattr(dt, k)
            except Exception:
                reject = True
        srv = types.SimpleNamespace(dispatcher=types.SimpleNamespace(announce_update=lambda m, p: None),
                                    secnode=types.SimpleNamespace(equipment_id='verif', name='node'))
        obj = Dev.__new__(Dev)
        yield dict(label=f'cfg={[tuple(c[:3]) for c in combo]}', self=obj,
                   args={'name': 'm', 'logger': nodelib.quiet_logger(), 'cfgdict': cfg, 'srv': srv},
                   ghosts={'expect_reject': reject, 'expect_values': {} if reject else values, 'expect_props': {} if reject else props,
                           'expect_units': {}, 'earlier': []})


def _unit_class():
    from frappy.modules import Readable, Parameter
    from frappy.datatypes import FloatRange, TupleOf, StructOf, ArrayOf

    class Sensor(Readable):
        value = Parameter('v', FloatRange(unit='K'), default=0)
        speed = Parameter('rate', FloatRange(unit='$/min'), default=0, readonly=False)
        window = Parameter('pair', TupleOf(FloatRange(unit='$'), FloatRange(unit='s')), default=(0, 0), readonly=False)
        ctrl = Parameter('struct', StructOf(p=FloatRange(unit='%/$'), i=FloatRange(unit='$')), default={'p': 0, 'i': 0}, readonly=False)
        curve = Parameter('array', ArrayOf(FloatRange(unit='$'), 0, 3), default=(), readonly=False)
    declared = {'speed': ['$/min'], 'window': ['$', 's'], 'ctrl': ['$', '%/$'], 'curve': ['$'], 'value': ['$']}
    return Sensor, declared


def gen_units(tier, rng):
    """several instances of ONE class whose container / scalar parameters use the main unit ($), each configured with a different main
    unit (or none): every order of 3 of the units {class default, mbar, l/min, T}"""
    import itertools
    import types
    from bounded import nodelib
    from frappy.config import Param
    units = [None, 'mbar', 'l/min', 'T']
    for order in itertools.permutations(units, 3):
        Sensor, declared = _unit_class()
        earlier = []
        for i, unit in enumerate(order):
            main = unit or 'K'
            cfg = {'description': 'd'}
            if unit:
                cfg['value'] = Param(unit=unit)
            expect = {p: [u.replace('$', main) for u in us] for p, us in declared.items()}
            srv = types.SimpleNamespace(dispatcher=types.SimpleNamespace(announce_update=lambda m, p: None),
                                        secnode=types.SimpleNamespace(equipment_id='verif', name='node'))
            obj = Sensor.__new__(Sensor)
            yield dict(label=f'instance {i} of one class, main units in creation order {order}', self=obj,
                       args={'name': f'm{i}', 'logger': nodelib.quiet_logger(), 'cfgdict': cfg, 'srv': srv},
                       ghosts={'expect_reject': False, 'expect_values': {}, 'expect_props': {}, 'expect_units': expect,
                               'earlier': list(earlier)})
            earlier.append((obj, expect))


def gen_init_all(tier, rng):
    """(a) one configured parameter at a time (28 combinations of property overrides and values over 5 datatypes, incl. unknown names) and
    random pairs of them, oracle = overrides applied to a copy of the class datatype; (b) 3 instances of ONE class with $-units in scalar,
    tuple, struct and array parameters, each configured with a different main unit, every order of 3 of 4 units"""
    yield from gen_module_config(tier, rng)
    yield from gen_units(tier, rng)


GENS = {'Module.__init__': gen_init_all,'Module.writeInitParams': gen_write_init}
