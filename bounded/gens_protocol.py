"""input generators of the bounded tier for contracts/protocol.py (C07)"""
import itertools
import json
import types

from pyvc import native

C = None


def _streams(maxlen, alphabet=(b'a', b'\n', b' ', b'\r')):
    for n in range(0, maxlen + 1):
        for t in itertools.product(alphabet, repeat=n):
            yield b''.join(t)


def gen_get_msg(tier, rng):
    """all byte strings over {a, LF, space, CR} up to length 5 (quick) / 7"""
    for s in _streams(5 if tier == 'quick' else 7):
        yield dict(label=repr(s), self=None, args={'_bytes': s})


def _handler():
    from frappy.protocol.interface.tcp import TCPRequestHandler
    h = object.__new__(TCPRequestHandler)
    h.data = b''
    h.running = True
    h.log = types.SimpleNamespace(**{k: (lambda *a, **kw: None) for k in ('debug', 'info', 'error', 'warning', 'exception')})
    return h


def _segmentations(s, rng, tier):
    n = len(s)
    yield [s]
    if n > 1:
        yield [s[i:i + 1] for i in range(n)]
        for i in range(1, n):
            yield [s[:i], s[i:]]
        for _ in range(4 if tier == 'quick' else 16):
            cuts = sorted(rng.sample(range(1, n), min(n - 1, rng.randint(2, 4))))
            yield [s[a:b] for a, b in zip([0] + cuts, cuts + [n])]


def gen_framing(which):
    def gen(tier, rng):
        """histories: every byte stream over {a, LF, space} up to length 6 (quick) / 8 in every 1-/2-way and some n-way
        segmentation, driven through the real ingest / next_message; each call of the history is one case"""
        for s in _streams(6 if tier == 'quick' else 8, (b'a', b'\n', b' ')):
            for chunks in _segmentations(s, rng, tier):
                h = _handler()
                for ch in chunks:
                    if which == 'ingest':
                        yield dict(label=f'{chunks!r} ingest {ch!r} on {h.data!r}', self=h, args={'newdata': ch})
                    else:
                        h.ingest(ch)
                    while True:
                        box = []

                        def call(h=h, box=box):
                            r = h.next_message()
                            box.append(r)
                            return r
                        if which == 'next_message':
                            yield dict(label=f'{chunks!r} next_message on {h.data!r}', self=h, args={}, call=call)
                        else:
                            try:
                                call()
                            except Exception:
                                box.append('exc')
                        if not box or box[0] is None:
                            break
    return gen


# ---- the request loop, end to end: real TCP handler, real dispatcher, real modules; scripted socket

LINES = [b'*IDN?', b'describe', b'read m:value', b'change m:target 3', b'change m:target 99', b'change m:target', b'do m:stop',
         b'do m:_twice 2', b'do m:_twice "x"', b'do m', b'ping x', b'ping', b'activate', b'activate m', b'deactivate', b'deactivate m:value',
         b'bogus', b'', b' ', b'read', b'read nomod:value', b'read m:nopar', b'read m:value 1', b'change m:target {', b'change m:target [1,',
         b'change m:target NaN', b'change m:target 1e999', b'logging m "debug"', b'logging m "nolevel"', b'logging . "off"',
         b'\xff\xfe', b'read \xff', b'change m:target "\xc3"', b'request x', b'_ident', b'help', b'error_read m', b'\tread m:value',
         b'read  m:value', b'read m:value\r', b'READ m:value', b'x' * 300, b'change m:_text "' + b'\\u00e9\\ud800' + b'"',
         b'change m:_text "\xc3\xa9"', b'do m:_twice 2 3', b'describe .', b'describe x',
         # strings the JSON decoder accepts but UTF-8 cannot carry unescaped (lone surrogates), and ordinary non-ASCII text
         b'change m:_label "\\ud83d"', b'change m:_label "a\\udc00b"', b'change m:_label "\\u00e9\\u03a9"', b'change m:_label "\xc2\xb5"',
         b'read m:_label', b'change m:_label "\\ud83d\\ude00"']


def _node():
    from bounded import nodelib
    from frappy.modules import Drivable, Parameter, Command
    from frappy.datatypes import FloatRange, IntRange, StringType

    class Drv(Drivable):
        value = Parameter('v', FloatRange(0, 10), default=1)
        target = Parameter('t', FloatRange(0, 10), default=1)
        text = Parameter('s', StringType(), default='', readonly=False)
        label = Parameter('any unicode text', StringType(isUTF8=True), default='', readonly=False)

        def read_value(self):
            return self.target

        def write_target(self, v):
            return v

        @Command(IntRange(0, 5), result=IntRange())
        def twice(self, x):
            """double"""
            return 2 * x
    return nodelib.Srv([nodelib.mod('m', Drv)])


def _strict_json(text):
    def bad(c):
        raise ValueError(c)
    return json.loads(text, parse_constant=bad)


def _serve(chunks):
    """run the real handler over the scripted socket; -> (handler, taken, replies, asyncs, wire)"""
    from bounded import nodelib
    from frappy.protocol.interface.tcp import TCPRequestHandler
    from frappy.protocol.interface.handler import DecodeError
    srv = _node()
    h = object.__new__(TCPRequestHandler)
    h.request = nodelib.FakeSocket(chunks)
    h.client_address = ('peer', 1)
    h.server = srv
    h.log = None
    h.setup()
    taken, replies, asyncs = [], [], []
    real_next, real_send = h.next_message, h.send_reply

    def next_message():
        try:
            r = real_next()
        except DecodeError as e:
            taken.append(('<undecodable>', e.raw_msg, None))
            raise
        if r is not None:
            taken.append(r)
        return r

    depth = [0]
    real_dispatch = srv.dispatcher.handle_request

    def handle_request(conn, msg):
        depth[0] += 1
        try:
            return real_dispatch(conn, msg)
        finally:
            depth[0] -= 1
    srv.dispatcher.handle_request = handle_request

    def send_reply(data):
        # what the dispatcher sends from inside handle_request are events; the request loop's own sends are replies / help text
        (asyncs if depth[0] or (data and C.IsAsync(data)) else replies).append(data)
        return real_send(data)
    h.next_message, h.send_reply = next_message, send_reply
    return h, taken, replies, asyncs


def _norm(replies):
    out = []
    for r in replies:
        r = json.loads(json.dumps(r, default=repr))
        if isinstance(r[2], list) and len(r[2]) == 2 and isinstance(r[2][1], dict):
            r[2][1].pop('t', None)
        out.append(r)
    return out


def gen_handle(tier, rng):
    """request streams of 1..3 lines from a grammar of valid / mutated SECoP requests (see LINES), LF and CRLF,
    unchunked, bytewise, every 2-split and random n-splits; reference = the unchunked run on a fresh node"""
    seqs = [[l] for l in LINES]
    for _ in range(40 if tier == 'quick' else 400):
        seqs.append([rng.choice(LINES) for _ in range(rng.randint(2, 3))])
    for seq in seqs:
        for eol in (b'\n', b'\r\n') if tier != 'quick' or len(seq) == 1 else (b'\n',):
            stream = b''.join(l + eol for l in seq) + rng.choice([b'', b'partial'])
            href, _t, ref, _a = _serve([stream])
            try:
                href.handle()
                reference = _norm(ref)
            except Exception as e:      # the handler died on the unchunked stream: every case of this stream reports it (never-raises)
                reference = [f'the request loop raised {type(e).__name__} on the unchunked stream']
            segs = list(_segmentations(stream, rng, tier))
            if len(stream) > 40:
                segs = segs[:2] + rng.sample(segs[2:], min(len(segs) - 2, 6 if tier == 'quick' else 30))
            for chunks in segs:
                h, taken, replies, asyncs = _serve(chunks)
                yield dict(label=f'{chunks!r}'[:400], self=h, args={},
                           ghosts={'log_taken': taken, 'log_replies': replies, 'log_async': asyncs,
                                   'wire_out': h.request.sent, 'reference': reference})


def gen_codec(tier, rng):
    """message triples: actions x specifiers {None, '', 'm', 'm:p'} x JSON data (None, numbers, nested lists / objects, strings with
    ASCII, non-ASCII, control characters, escapes, lone and paired surrogates as json.loads produces them)"""
    strings = ['', 'a b', '\u00e9\u03a9\u00b5', '\ud83d', 'a\udc00b', '\U0001f600', 'q"\\', 'line\nbreak', '\x00\x1f', ' lead', 'trail ']
    datas = [None, 0, 1.5, True, [], {}, [1, [2, {'a': None}]], {'k': 'v', 't': 1.5}] + strings + [[s, {'t': 1.0}] for s in strings] + \
        [{s: s} for s in strings if s]
    for action in ('update', 'reply', 'error_read', 'pong'):
        for spec in (None, '', 'm', 'm:p'):
            for data in datas:
                yield dict(label=f'{action} {spec!r} {data!r}', self=None, args={'action': action, 'specifier': spec, 'data': data})


GENS = {
    'encode_msg_frame': gen_codec,
    'get_msg': gen_get_msg,
    'TCPRequestHandler.ingest': gen_framing('ingest'),
    'TCPRequestHandler.next_message': gen_framing('next_message'),
    'RequestHandler.handle': gen_handle,
}
