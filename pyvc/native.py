"""Native (CPython) meaning of the contract-language builtins.

The contract files are plain Python: under the VC generator their spec
functions and clauses are parsed and executed symbolically; under replay and
the bounded tier the very same text is evaluated by CPython with the helpers
below.  No z3 here - this module is imported by /venv/bin/python.
"""
import base64
import math

_DISPATCH_NS = {}      # filled by register(): spec functions of the loaded contract modules


def register(ns):
    _DISPATCH_NS.update({k: v for k, v in ns.items() if callable(v) or k == 'DISPATCH_FALLBACK'})


def _dispatch(name, recv, *args):
    fb = _DISPATCH_NS.get('DISPATCH_FALLBACK') or {}
    nm = name
    while nm is not None:
        for c in type(recv).__mro__:
            f = _DISPATCH_NS.get(f'{nm}_{c.__name__}')
            if f is not None:
                return f(recv, *args)
        nm = fb.get(nm)
    f = _DISPATCH_NS.get(name + '_default')
    if f is not None:
        return f(recv, *args)
    raise NotImplementedError(f'no spec {name}_<class> for {type(recv).__name__}')


def make_dispatcher(name):
    def d(recv, *args):
        return _dispatch(name, recv, *args)
    d.__name__ = name
    return d


def _enum_member(v):
    return type(v).__name__ == 'EnumMember'


def is_int(v): return isinstance(v, int) and not isinstance(v, bool)
def is_bool(v): return isinstance(v, bool)
def is_float(v): return isinstance(v, float)
def is_finite_float(v): return isinstance(v, float) and math.isfinite(v)
def is_ok_float(v): return isinstance(v, float) and math.isfinite(v)
def is_nan(v): return isinstance(v, float) and v != v
def is_inf(v): return isinstance(v, float) and math.isinf(v)
def is_str(v): return isinstance(v, str)
def is_bytes(v): return isinstance(v, bytes)
def is_tuple(v): return isinstance(v, tuple)
def is_list(v): return isinstance(v, list)
def is_seq(v): return isinstance(v, (tuple, list))
def is_dict(v): return isinstance(v, dict)
def is_set(v): return isinstance(v, (set, frozenset))
def is_none(v): return v is None
def is_enum(v): return _enum_member(v)
def is_obj(v): return not isinstance(v, (int, float, str, bytes, tuple, list, dict, set, type(None))) and not _enum_member(v)
def is_number(v): return isinstance(v, (bool, int)) or (isinstance(v, float) and math.isfinite(v))
def is_intlike(v): return isinstance(v, (bool, int)) or _enum_member(v)
def is_ascii(s): return s.isascii()
def implies(a, b): return (not a) or bool(b)
def py_eq(a, b): return a == b
def same_object(a, b): return a is b


def _finite(v):
    return is_number(v) or _enum_member(v)


def num_eq(a, b):
    if not (_finite(a) and _finite(b)):
        return False
    a = a.value if _enum_member(a) else a
    b = b.value if _enum_member(b) else b
    return a == b


def is_whole(v):
    if not _finite(v):
        return False
    v = v.value if _enum_member(v) else v
    return v == math.floor(v)


def realnum(v):
    from fractions import Fraction
    v = v.value if _enum_member(v) else v
    return Fraction(v)


def dict_same_except(d1, d0, *keys):
    ks = set(keys)
    if isinstance(d1, (set, frozenset)):
        return {x for x in d1 if x not in ks} == {x for x in d0 if x not in ks}
    return {k: v for k, v in d1.items() if k not in ks} == {k: v for k, v in d0.items() if k not in ks}


def held(lock):
    """the executing thread holds the lock (RLock); plain locks: unknown natively, taken as held"""
    f = getattr(lock, '_is_owned', None)
    return bool(f()) if f else True
def last(log): return log[-1]
def nth(rec, j, *a): return rec[j]
def unchanged(field): return True    # heap frame clauses are VC-only
def has_dyn(obj, name): return hasattr(obj, name)
def line_removed(before, after):
    m = len(before) - len(after) - 1
    return isinstance(before, bytes) and isinstance(after, bytes) and m >= 0 and before == before[:m] + b'\n' + after \
        and b'\n' not in before[:m]


PRE_IDS = set()      # ids of the objects reachable from the inputs before the call (filled by the replay harness)


def reach_ids(roots, limit=20000):
    seen, stack = set(), list(roots)
    while stack and len(seen) < limit:
        o = stack.pop()
        if id(o) in seen or isinstance(o, (int, float, str, bytes, bool, type(None), type)):
            continue
        seen.add(id(o))
        if isinstance(o, dict):
            stack.extend(o.keys())
            stack.extend(o.values())
        elif isinstance(o, (list, tuple, set, frozenset)):
            stack.extend(o)
        else:
            d = getattr(o, '__dict__', None)
            if isinstance(d, dict):
                stack.extend(d.values())
    return seen


def is_fresh(v):
    """allocated during the call: not reachable from the inputs before it"""
    return id(v) not in PRE_IDS


def is_callable(v): return callable(v)


def is_hashable(v):
    try:
        hash(v)
        return True
    except TypeError:
        return False


def is_prefix(a, b): return list(b[:len(a)]) == list(a)
# quantifiers: unbounded in the VC; natively evaluated over the finite universes the bounded harness fills in
# (empty universe = vacuous, as in replays of solver models)
STR_UNIVERSE, INT_UNIVERSE, OBJ_UNIVERSE = [], [], []
def forall_str(f): return all(f(s) for s in STR_UNIVERSE)
def forall_int(f): return all(f(i) for i in INT_UNIVERSE)
def forall_obj(f): return all(f(o) for o in OBJ_UNIVERSE)


def enum_owned(e, v):
    return _enum_member(v) and v.enum is e


def same_value(a, b):
    return type(a) is type(b) and (a == b or (a != a and b != b))


def on_grid(v, scale):
    """v is a grid value n * scale (computed the way the code computes grid values)"""
    return v == round(v / scale) * scale


def as_float(v):
    v = v.value if _enum_member(v) else v
    return float(v)


def is_valid_b64(s):
    if not isinstance(s, str):
        return False
    try:
        base64.b64decode(s, validate=True)
        return True
    except Exception:
        return False


def b64_bytes(s):
    return base64.b64decode(s, validate=True)


def mk_enum(e, name, code):
    m = e[name]
    return m if m.value == code else None


def enum_wf(e):
    return all(e[m.name] is m and e[m.value] is m for m in e.members)


def enum_has_name(e, s): return isinstance(s, str) and any(m.name == s for m in e.members)
def enum_code(e, s): return e[s].value
def enum_has_code(e, i): return any(m.value == i for m in e.members)
def enum_name(e, i): return [m.name for m in e.members if m.value == i][0]
def seq_eq(a, b): return type(a) is type(b) and a == b
def in_universe(v): return not isinstance(v, (set, frozenset, type)) and not is_obj(v)
def is_wire(v):
    if isinstance(v, list):
        return all(is_wire(x) for x in v)
    if isinstance(v, dict):
        return all(isinstance(k, str) and is_wire(x) for k, x in v.items())
    return v is None or isinstance(v, (bool, int, float, str))


def b64_text(b):
    return base64.b64encode(b).decode('ascii')


def is_instance_of(v, cls):
    return isinstance(v, cls)


def class_of(v):
    return type(v)


def inv(obj):
    """class invariant: natively every constructed object satisfies it"""
    return True


def old(x):
    raise RuntimeError('old() must be pre-evaluated by the replay harness')
