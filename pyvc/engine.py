"""Path-wise symbolic execution of extracted Python functions (DESIGN 2.3-2.5).

Exploration is by decision replay: one path is one straight run of the
interpreter; every branch point asks `choose`; untaken feasible alternatives
are queued as decision prefixes and re-run from the start.  Calls are resolved
to contracts (never bodies, unless the sidecar marks a helper `inline`).
"""
import ast
import time
import z3

from . import vals
from .vals import V, Val, IntS, StrS, BoolS, RealS, SeqVal, simp, const


class Unsupported(Exception):
    """construct outside the supported subset -> obligation undecided"""


class PathEnd(Exception):
    """this path stops here (infeasible / assumption false / iteration checked)"""


class PyRaise(Exception):
    def __init__(self, exc):
        super().__init__()
        self.exc = exc          # SV of an exception object (ObjV)


class PyReturn(Exception):
    def __init__(self, value):
        super().__init__()
        self.value = value


class PyBreak(Exception):
    pass


class ProbeFork(Exception):
    """raised in probe mode when an evaluation would have to fork"""


class PyContinue(Exception):
    pass


class SV:
    """symbolic value: z3 term of sort Val + optional static type"""
    __slots__ = ('t', 'ty', 'src')

    def __init__(self, t, ty=None, src=None):
        self.t = t
        self.ty = ty
        self.src = src      # ast expression this (mutable) container was loaded from

    def __repr__(self):
        return f'SV({simp(self.t)}, {self.ty})'


class PV:
    """python-level value that has no Val term: functions, classes, modules, bound methods"""
    __slots__ = ('kind', 'data')

    def __init__(self, kind, data):
        self.kind = kind
        self.data = data

    def __repr__(self):
        return f'PV({self.kind}, {self.data})'


CLSOF = z3.Function('clsof', IntS, IntS)


class ClassIds:
    """class name <-> small integer; subclass tests are finite disjunctions"""

    def __init__(self):
        self.ids = {}
        self.names = {}
        self.bases = {}

    ALIASES = {'socket.error': 'OSError', 'IOError': 'OSError', 'EnvironmentError': 'OSError', 'socket.timeout': 'TimeoutError'}

    def add(self, name, bases):
        if name in self.ALIASES and self.ALIASES[name] in self.ids:
            # an alias of another class (python 3: socket.error is OSError): same id
            target = self.ALIASES[name]
            self.ids[name] = self.ids[target]
            self.bases[name] = list(self.bases.get(target, []))
            return
        if name not in self.ids:
            n = len(self.ids) + 1
            self.ids[name] = n
            self.names[n] = name
        self.bases[name] = list(bases)

    def id(self, name):
        if name not in self.ids:
            raise Unsupported(f'unknown class {name}')
        return self.ids[name]

    def issub(self, name, base):
        if name == base:
            return True
        return any(self.issub(b, base) for b in self.bases.get(name, []) if b in self.bases or b == base)

    def issub(self, name, base):
        name, base = self.ALIASES.get(name, name) if self.ALIASES.get(name) in self.ids else name, \
            self.ALIASES.get(base, base) if self.ALIASES.get(base) in self.ids else base
        if name == base:
            return True
        return any(self.issub(b, base) for b in self.bases.get(name, []) if b in self.bases or b == base)

    def descendants(self, base):
        return [n for n in self.ids if self.issub(n, base)]

    def sub(self, cterm, base):
        """z3: class id term denotes a subclass of `base`"""
        ds = self.descendants(base)
        if not ds:
            return z3.BoolVal(False)
        return z3.Or(*[cterm == self.ids[d] for d in ds])

    def any_of(self, cterm, base='BaseException'):
        return self.sub(cterm, base)


class Path:
    def __init__(self, script):
        self.script = list(script)
        self.pos = 0
        self.alternatives = []


class Obligation:
    __slots__ = ('name', 'pc', 'goal', 'kind', 'path', 'line', 'status', 'time', 'model', 'solver', 'note', 'inputs', 'smt2', 'n_axioms')

    def __init__(self, name, pc, goal, kind='post', path='', line=0, inputs=None):
        self.name = name
        self.pc = list(pc)
        self.goal = goal
        self.kind = kind
        self.path = path
        self.line = line
        self.status = None
        self.time = 0.0
        self.model = None
        self.solver = None
        self.note = ''
        self.inputs = inputs or {}
        self.smt2 = None
        self.n_axioms = 0


class Frame:
    def __init__(self, env, fkey, cls, closure=None):
        self.env = env
        self.fkey = fkey
        self.cls = cls
        self.closure = closure or {}
        self.handled = []      # stack of currently handled exceptions (for bare raise)


import os as _os
NL_FEAS_TIMEOUT_MS = int(_os.environ.get("PYVC_NL_FEAS_MS", "250"))
FEAS_TIMEOUT_MS = int(_os.environ.get("PYVC_FEAS_MS", "3000"))


class Interp:
    def __init__(self, world):
        self.world = world             # World: sources, contracts, classes (see vc.py)
        self.cids = world.cids
        self.solver = z3.Solver()
        self.lin_solver = z3.Solver()       # nonlinear arithmetic off: its `unsat` is sound and fast
        self.no_float_overflow = False
        self.stats = {'feas_checks': 0, 'feas_time': 0.0}
        self.reset(Path([]))

    # ------------------------------------------------------------ state
    def reset(self, path):
        self.path = path
        self.frames = []
        self.heap = {}
        self.summary_ids = set()
        self.pc = []
        self.ghost = {}
        self.locks = []
        self.obligations = []
        self.counter = 0
        self.fresh_log = []
        self.inputs = {}
        self.trace = []
        self.quant_depth = 0
        self.mode = 'code'       # 'code' or 'spec'
        self.known = []          # (term, constructor form) learnt from the path condition
        self.axioms = []         # unconditional facts (instances of assumed view axioms); survive guarded evaluation
        self.solver_ids = []
        self.solver.reset()
        self.solver.set('timeout', FEAS_TIMEOUT_MS)
        self.lin_ids = []
        self.lin_solver.reset()
        self.lin_solver.set('timeout', FEAS_TIMEOUT_MS)
        self.lin_solver.set('smt.arith.nl', False)
        # feasibility only prunes: no model-based quantifier instantiation (an `unknown` counts as feasible)
        self.lin_solver.set('smt.mbqi', False)
        self.solver.set('smt.mbqi', False)
        self.probe = 0
        self.polarity = 'oblige'    # how the spec clause being evaluated is used: assumed or to be proved
        self.wire_terms = []        # values assumed to be wire (JSON) values whose kind is not known yet
        self.lazy_inv = []          # pending element invariants of dict fields (instantiated on key lookup)
        self.lazy_done = set()
        self.in_lazy = False
        self.nonlinear = False      # set when a product / quotient of two symbolic reals enters the path condition

    def snapshot(self):
        return (dict(self.frames[-1].env) if self.frames else None, dict(self.heap), list(self.pc),
                dict(self.ghost), list(self.locks), len(self.obligations), list(self.known))

    def restore(self, snap):
        env, heap, pc, ghost, locks, nobl, known = snap
        if env is not None:
            self.frames[-1].env = dict(env)
        self.heap = dict(heap)
        self.pc[:] = list(pc)
        self.ghost = dict(ghost)
        self.locks = list(locks)
        del self.obligations[nobl:]
        self.known = list(known)

    # ------------------------------------------------ kind refinement
    def refine(self, t):
        if self.known:
            t = z3.substitute(t, *self.known)
        return simp(t)

    def learn(self, cond):
        """record `is_X(t)` facts of a new path-condition conjunct and use them
        to collapse if-then-else chains over kinds in later terms and in the pc"""
        new = []
        stack = [cond]
        while stack:
            c = stack.pop()
            if z3.is_and(c):
                stack.extend(c.children())
            elif z3.is_eq(c) and c.arg(0).sort() == Val:
                l, r = c.arg(0), c.arg(1)
                if vals.tag_of(l) is None and vals.tag_of(r) is not None and z3.is_const(l):
                    new.append((l, r))
                elif vals.tag_of(r) is None and vals.tag_of(l) is not None and z3.is_const(r):
                    new.append((r, l))
            elif z3.is_app(c) and c.decl().kind() == z3.Z3_OP_DT_IS and c.arg(0).sort() == Val:
                t = c.arg(0)
                if vals.tag_of(t) is not None:
                    continue
                ctor = c.decl().params()[0] if c.decl().params() else None
                name = ctor.name() if ctor is not None else None
                k = vals.CTOR_INDEX.get(name)
                if k is None:
                    continue
                ctor = Val.constructor(k)
                if ctor.arity() == 0:
                    rep = ctor()
                else:
                    rep = ctor(*[Val.accessor(k, j)(t) for j in range(ctor.arity())])
                new.append((t, rep))
        for t, rep in new:
            if vals._c(rep) == 'FloatV':
                self.assume_axiom(vals.wf_known(rep))
            elif vals._c(rep) in ('ListV', 'DictV') and any(t.eq(w) for w in self.wire_terms):
                self.world.builtins.wire_unfold(self, rep)
        if new:
            self.known = [(a, simp(z3.substitute(b, *new))) for a, b in self.known] + new
            # entries keep their positions (sub-explorations slice the list by index)
            self.pc[:] = [simp(z3.substitute(p, *new)) for p in self.pc]
            for tpl in new:
                # keep the fact itself (the substitution turned it into `true`)
                self.pc.append(tpl[0] == z3.substitute(tpl[1], *[x for x in new if x is not tpl]) if len(new) > 1 else tpl[0] == tpl[1])
            for fr in self.frames:
                for nme, v in fr.env.items():
                    if isinstance(v, SV):
                        t2 = z3.substitute(v.t, *new)
                        if not t2.eq(v.t):
                            fr.env[nme] = SV(simp(t2), v.ty, v.src)

    def fresh(self, name, sort=None):
        self.counter += 1
        c = z3.Const(f'{name}!{self.counter}', sort if sort is not None else Val)
        self.fresh_log.append(c)
        return c

    def fresh_val(self, name, ty=None):
        return SV(self.fresh(name, Val), ty)

    # ------------------------------------------------------- path control
    def assume_axiom(self, f):
        f = simp(f)
        if not z3.is_true(f) and not any(f.eq(x) for x in self.axioms):
            self.axioms.append(f)
            self.learn(f)       # kind facts among the axioms refine later terms as well

    def _sync(self, solver, ids_attr):
        """make the solver's assertion stack equal to axioms + path condition, one scope per
        assertion, popping back to the common prefix instead of resetting"""
        skip = getattr(self, 'summary_ids', None)
        want = [p for p in self.pc if p.get_id() not in skip] + self.axioms if skip else self.pc + self.axioms
        ids = [p.get_id() for p in want]
        have = getattr(self, ids_attr)
        n = 0
        while n < len(have) and n < len(ids) and have[n] == ids[n]:
            n += 1
        if len(have) > n:
            solver.pop(len(have) - n)
        for p in want[n:]:
            solver.push()
            solver.add(p)
        setattr(self, ids_attr, ids)

    def sync_solver(self):
        self._sync(self.solver, 'solver_ids')

    def _pc_literals(self):
        key = (len(self.pc), self.pc[-1].get_id() if self.pc else 0)
        if getattr(self, '_lit_key', None) != key:
            lits = set()
            stack = list(self.pc)
            while stack:
                f = stack.pop()
                if z3.is_and(f):
                    stack.extend(f.children())
                else:
                    lits.add(f.get_id())
            self._lits, self._lit_key = lits, key
        return self._lits

    def feasible(self, cond):
        c = self.refine(cond)
        if z3.is_true(c):
            return True
        if z3.is_false(c):
            return False
        # syntactic fast path: the condition or its negation is literally a conjunct of the path condition
        lits = self._pc_literals()
        neg = simp(z3.Not(c))
        if c.get_id() in lits:
            return True
        if neg.get_id() in lits:
            return False
        if z3.is_and(c) and any(simp(z3.Not(ch)).get_id() in lits for ch in c.children()):
            return False
        t0 = time.time()
        # stage 1: linear view (products uninterpreted) - an `unsat` here is final
        self._sync(self.lin_solver, 'lin_ids')
        self.lin_solver.push()
        try:
            self.lin_solver.add(c)
            r = self.lin_solver.check()
        finally:
            self.lin_solver.pop()
        if r != z3.unsat and self.nonlinear:
            # stage 2: full (nonlinear) solver under a short budget; undecided counts as feasible
            self.sync_solver()
            self.solver.push()
            try:
                self.solver.set('timeout', NL_FEAS_TIMEOUT_MS)
                self.solver.add(c)
                r = self.solver.check()
            finally:
                self.solver.pop()
        self.stats['feas_checks'] += 1
        self.stats['feas_time'] += time.time() - t0
        return r != z3.unsat

    def feasible_tags(self, t):
        """constructors the value may have under the path condition (model enumeration)"""
        self.sync_solver()
        tags = []
        self.solver.push()
        try:
            while True:
                t0 = time.time()
                r = self.solver.check()
                self.stats['feas_checks'] += 1
                self.stats['feas_time'] += time.time() - t0
                if r == z3.unsat:
                    break
                if r != z3.sat:
                    # no model available (quantifiers): decide each remaining constructor separately;
                    # only a proved exclusion prunes
                    rest = [k for k in range(len(vals.CTOR_NAMES)) if k not in tags]
                    self.solver.pop()
                    try:
                        return sorted(set(tags) | {k for k in rest if self.feasible(Val.recognizer(k)(t))})
                    finally:
                        self.solver.push()
                mv = self.solver.model().eval(t, model_completion=True)
                k = vals.CTOR_INDEX[mv.decl().name()]
                tags.append(k)
                self.solver.add(z3.Not(Val.recognizer(k)(t)))
        finally:
            self.solver.pop()
        return sorted(tags)

    def choose(self, conds, why='', feasible=None):
        """n-way branch; conds must be exhaustive.  returns the index taken"""
        p = self.path
        if p.pos < len(p.script):
            k = p.script[p.pos]
            p.pos += 1
            c = self.refine(conds[k])
            if not z3.is_true(c):
                self.pc.append(c)
                self.learn(c)
            self.trace.append((why, k))
            return k
        sconds = [self.refine(c) for c in conds]
        if feasible is not None:
            feas = list(feasible)
        else:
            feas = [k for k, c in enumerate(sconds) if self.feasible(c)]
        if not feas:
            raise PathEnd('infeasible')
        if self.probe and len(feas) > 1:
            raise ProbeFork()
        k = feas[0]
        for alt in feas[1:]:
            p.alternatives.append(p.script[:p.pos] + [alt])
        p.script.append(k)
        p.pos += 1
        if not z3.is_true(sconds[k]):
            self.pc.append(sconds[k])
            self.learn(sconds[k])
        self.trace.append((why, k))
        return k

    def branch(self, cond, why=''):
        """2-way branch on a z3 Bool -> python bool"""
        c = self.refine(cond)
        if z3.is_true(c):
            return True
        if z3.is_false(c):
            return False
        return self.choose([c, z3.Not(c)], why) == 0

    def assume(self, cond, summary=False):
        """summary: a quantified summary fact (comprehension / loop summary).  It is part of the path condition of
        every obligation but is left out of the feasibility queries, which only prune paths (leaving a fact out
        there can only keep an infeasible path alive, whose obligations then hold trivially)"""
        c = self.refine(cond)
        if z3.is_false(c):
            raise PathEnd('assumption false')
        if not z3.is_true(c):
            self.pc.append(c)
            if summary:
                self.summary_ids.add(c.get_id())
            else:
                self.learn(c)

    def kind_hint(self, ty):
        if not ty:
            return None
        if ty in self.world.classes or ty.startswith('callable:'):
            return vals.CTOR_INDEX['ObjV']
        head = ty.split(':', 1)[0].split('|', 1)[0].split('[', 1)[0]
        m = {'dict': 'DictV', 'enumdict': 'DictV', 'list': 'ListV', 'tuple': 'TupleV', 'ImmutableDict': 'DictV',
             'str': 'StrV', 'int': 'IntV', 'bool': 'BoolV', 'bytes': 'BytesV', 'set': 'SetV'}
        if head in m:
            return vals.CTOR_INDEX[m[head]]
        return None

    def split_kind(self, v):
        """make the constructor of a value known on this path (n-way branch)"""
        if not isinstance(v, SV):
            return v
        t = self.refine(v.t)
        if vals.tag_of(t) is not None:
            return SV(t, v.ty, v.src)
        p = self.path
        if p.pos < len(p.script) or self.probe:
            self.choose([Val.recognizer(k)(t) for k in range(len(vals.CTOR_NAMES))], 'kind')
        else:
            tags = None
            hint = self.kind_hint(v.ty)
            if hint is not None and not self.feasible(z3.Not(Val.recognizer(hint)(t))):
                tags = [hint]       # the declared type's constructor is implied by the path condition
            if tags is None:
                tags = self.feasible_tags(t)
            self.choose([Val.recognizer(k)(t) for k in range(len(vals.CTOR_NAMES))], 'kind', feasible=tags)
        return SV(self.refine(t), v.ty, v.src)

    def oblige(self, name, goal, kind='post', line=0):
        g = self.refine(goal)
        if z3.is_true(g):
            o = Obligation(name, [], g, kind, self.pathname(), line)
            o.status = 'discharged'
            o.solver = 'simplifier'
            self.obligations.append(o)
            return
        o = Obligation(name, self.axioms + self.pc, g, kind, self.pathname(), line, dict(self.inputs))
        o.n_axioms = len(self.axioms)
        self.obligations.append(o)

    def pathname(self):
        import hashlib
        d = ''.join(str(k) for k in self.path.script[:self.path.pos])
        return 'p' + hashlib.sha1(d.encode()).hexdigest()[:6]

    # ------------------------------------------------------------- heap
    def heap_arr(self, field):
        if field not in self.heap:
            self.heap[field] = z3.Const(f'H0!{field}', z3.ArraySort(IntS, Val))
        return self.heap[field]

    def read_field(self, obj, field):
        return z3.Select(self.heap_arr(field), V.oid(obj))

    def write_field(self, obj, field, value):
        self.heap[field] = z3.Store(self.heap_arr(field), V.oid(obj), value)

    def havoc_field(self, field, only_obj=None):
        self.counter += 1
        newarr = z3.Const(f'H{self.counter}!{field}', z3.ArraySort(IntS, Val))
        if only_obj is not None:
            old = self.heap_arr(field)
            self.heap[field] = z3.Store(old, V.oid(only_obj), z3.Select(newarr, V.oid(only_obj)))
        else:
            self.heap[field] = newarr

    def new_object(self, clsname, hint='obj'):
        oid = self.fresh(hint, IntS)
        self.assume(CLSOF(oid) == self.cids.id(clsname))
        # fresh: distinct from every object that existed before
        self.assume(oid > self.alloc_mark())
        self.ghost['alloc!'] = oid
        return SV(V.ObjV(oid), clsname)

    def alloc_mark(self):
        if 'alloc!' not in self.ghost:
            self.ghost['alloc!'] = z3.Int('alloc0')
        return self.ghost['alloc!']

    # -------------------------------------------------------- exceptions
    def make_exc(self, clsname_or_term, args=()):
        oid = self.fresh('exc', IntS)
        if isinstance(clsname_or_term, str):
            self.assume(CLSOF(oid) == self.cids.id(clsname_or_term))
            ty = clsname_or_term
        else:
            self.assume(CLSOF(oid) == clsname_or_term)
            ty = None
        ev = SV(V.ObjV(oid), ty)
        if args:
            self.write_field(ev.t, 'args', V.TupleV(vals.valseq([a.t for a in args])))
        return ev

    def raise_(self, clsname, *args):
        if _os.environ.get('PYVC_DEBUG_RAISE'):
            import traceback
            print('RAISE', clsname, [str(a)[:80] for a in args], 'line', getattr(self, 'cur_line', None))
            traceback.print_stack(limit=6)
        raise PyRaise(self.make_exc(clsname, args))

    def exc_cls(self, exc):
        return CLSOF(V.oid(exc.t))

    # ---------------------------------------------------------- running
    def call_function(self, fdef, fkey, cls, args, closure=None):
        """execute a real function body; args: dict name -> SV/PV"""
        frame = Frame(dict(args), fkey, cls, closure)
        self.frames.append(frame)
        try:
            self.exec_block(fdef.body)
            return SV(V.NoneV)
        except PyReturn as r:
            return r.value
        finally:
            self.frames.pop()

    @property
    def env(self):
        return self.frames[-1].env

    # -------------------------------------------------------- statements
    def exec_block(self, stmts):
        for s in stmts:
            self.exec_stmt(s)

    def exec_stmt(self, s):
        m = getattr(self, 'st_' + type(s).__name__, None)
        if m is None:
            raise Unsupported(f'statement {type(s).__name__}@{s.lineno}')
        m(s)

    def st_Pass(self, s):
        pass

    def st_Expr(self, s):
        if isinstance(s.value, ast.Constant):
            return          # docstring
        if self.is_dropped_call(s.value):
            return
        self.ev(s.value)

    def is_dropped_call(self, e):
        """self.log.x(...), log.x(...), self.comLog(...), print(...)"""
        if not isinstance(e, ast.Call):
            return False
        f = e.func
        if isinstance(f, ast.Name) and f.id == 'print':
            return True
        if isinstance(f, ast.Attribute):
            v = f.value
            if isinstance(v, ast.Attribute) and v.attr == 'log':
                return True
            if isinstance(v, ast.Name) and v.id in ('log', 'logger'):
                return True
            if f.attr == 'comLog':
                return True
        return False

    def st_Return(self, s):
        raise PyReturn(self.ev(s.value) if s.value is not None else SV(V.NoneV))

    def st_Assign(self, s):
        v = self.ev(s.value)
        for tgt in s.targets:
            self.assign(tgt, v)

    def st_AnnAssign(self, s):
        if s.value is not None:
            self.assign(s.target, self.ev(s.value))

    def st_AugAssign(self, s):
        cur = self.ev(_load(s.target))
        rhs = self.ev(s.value)
        self.assign(s.target, self.world.ops.binop(self, s.op, cur, rhs, inplace=True))

    def assign(self, tgt, v, wb=False):
        """wb: write-back of a mutated value-semantics container into the slot it was taken from
        (may update a tuple slot: the tuple still holds the same, mutated, object)"""
        if isinstance(tgt, ast.Name):
            self.env[tgt.id] = v
        elif isinstance(tgt, (ast.Tuple, ast.List)):
            items = self.world.ops.unpack(self, v, len(tgt.elts))
            for t, it in zip(tgt.elts, items):
                self.assign(t, it)
        elif isinstance(tgt, ast.Attribute):
            obj = self.ev(tgt.value)
            self.world.ops.setattr(self, obj, tgt.attr, v)
        elif isinstance(tgt, ast.Subscript):
            obj = self.ev(tgt.value)
            idx = self.ev(tgt.slice)
            if wb and isinstance(obj, SV) and vals.tag_of(self.refine(obj.t)) == 'TupleV':
                items = V.titems(self.refine(obj.t))
                from .ops import ival as _ival
                i = simp(_ival(self.refine(idx.t)))
                if i is None or not z3.is_int_value(i) or i.as_long() < 0:
                    raise Unsupported(f'mutation of an element of a tuple at a computed index@{tgt.lineno}')
                j = i.as_long()
                newobj = SV(V.TupleV(simp(z3.Concat(z3.Extract(items, z3.IntVal(0), z3.IntVal(j)), z3.Unit(self.as_val(v)),
                                                    z3.Extract(items, z3.IntVal(j + 1), z3.Length(items) - (j + 1))))), obj.ty, obj.src)
            else:
                newobj = self.world.ops.setitem(self, obj, idx, v)
            if newobj is not None:
                # value-semantics containers: write the updated container back
                self.assign(_store_target(tgt.value), newobj, wb=True)
                if isinstance(obj, SV) and obj.src is not None and obj.src is not tgt.value \
                        and isinstance(tgt.value, ast.Name):
                    # the container was taken out of another slot: that slot sees the mutation too
                    self.assign(obj.src, SV(newobj.t, newobj.ty, None))
        else:
            raise Unsupported(f'assignment target {type(tgt).__name__}@{tgt.lineno}')

    def st_Delete(self, s):
        for tgt in s.targets:
            if isinstance(tgt, ast.Subscript):
                obj = self.ev(tgt.value)
                idx = self.ev(tgt.slice)
                newobj = self.world.ops.delitem(self, obj, idx)
                if newobj is not None:
                    self.assign(_store_target(tgt.value), newobj)
            elif isinstance(tgt, ast.Name):
                self.env.pop(tgt.id, None)
            else:
                raise Unsupported(f'del target@{s.lineno}')

    def st_If(self, s):
        if self.truth(self.ev(s.test), f'if@{s.lineno}'):
            self.exec_block(s.body)
        else:
            self.exec_block(s.orelse)

    def st_Raise(self, s):
        if s.exc is None:
            fr = self.frames[-1]
            if not fr.handled:
                raise Unsupported(f'bare raise outside handler@{s.lineno}')
            raise PyRaise(fr.handled[-1])
        e = s.exc
        # raise X(...) with message text dropped
        if isinstance(e, ast.Call):
            target = self.ev(e.func)
            if isinstance(target, PV) and target.kind == 'class' and self.cids.issub(target.data, 'BaseException'):
                args = []
                for a in e.args:
                    if isinstance(a, (ast.JoinedStr,)) or (isinstance(a, ast.BinOp) and isinstance(a.op, ast.Mod)):
                        args.append(SV(self.fresh('msg', Val)))   # opaque message text
                        self.assume(V.is_StrV(args[-1].t))
                    elif isinstance(a, ast.Constant) and isinstance(a.value, str):
                        args.append(SV(const(a.value)))
                    else:
                        args.append(self.ev(a))
                raise PyRaise(self.make_exc(target.data, args))
            if isinstance(target, SV):
                # raise errcls(...) with a computed class
                self.assume_or_unsupported(V.is_ClsV(target.t), 'raise of non-class')
                raise PyRaise(self.make_exc(V.cid(target.t)))
            raise Unsupported(f'raise of {target}@{s.lineno}')
        v = self.ev(e)
        if isinstance(v, PV) and v.kind == 'class':
            raise PyRaise(self.make_exc(v.data))
        if isinstance(v, SV):
            k = self.choose([V.is_ObjV(v.t), V.is_ClsV(v.t)], 'raise value')
            if k == 0:
                raise PyRaise(v)
            raise PyRaise(self.make_exc(V.cid(v.t)))
        raise Unsupported(f'raise@{s.lineno}')

    def assume_or_unsupported(self, cond, what):
        if not self.feasible(z3.Not(cond)):
            return
        raise Unsupported(what)

    def st_Try(self, s):
        pending = None
        try:
            self._try_core(s)
        except (PyRaise, PyReturn, PyBreak, PyContinue) as ctl:
            pending = ctl
        if s.finalbody:
            # an exception raised in finally replaces the pending one (python semantics)
            self.exec_block(s.finalbody)
        if pending is not None:
            raise pending

    def _try_core(self, s):
        fr = self.frames[-1]
        try:
            self.exec_block(s.body)
        except PyRaise as r:
            for h in s.handlers:
                if self.handler_matches(h, r.exc):
                    if h.name:
                        exc = r.exc
                        if exc.ty is None and isinstance(h.type, ast.Name) and h.type.id in self.world.classes:
                            exc = SV(exc.t, h.type.id)      # the handler's class is known to be a base class
                        self.env[h.name] = exc
                    fr.handled.append(r.exc)
                    try:
                        self.exec_block(h.body)
                    finally:
                        fr.handled.pop()
                    return
            raise
        self.exec_block(s.orelse)

    def handler_matches(self, h, exc):
        if h.type is None:
            return True
        names = []
        t = h.type
        elts = t.elts if isinstance(t, ast.Tuple) else [t]
        for e in elts:
            v = self.ev(e)
            if not (isinstance(v, PV) and v.kind == 'class'):
                raise Unsupported(f'except clause with computed class@{h.lineno}')
            names.append(v.data)
        c = self.exc_cls(exc)
        cond = z3.Or(*[self.cids.sub(c, n) for n in names])
        return self.branch(cond, f'except@{h.lineno}')

    def st_With(self, s):
        entered = []
        for item in s.items:
            cm = self.ev(item.context_expr)
            tok = self.world.ops.with_enter(self, cm, item)
            entered.append((cm, tok))
            if item.optional_vars is not None:
                self.assign(item.optional_vars, tok if isinstance(tok, (SV, PV)) else cm)
        pending = None
        try:
            self.exec_block(s.body)
        except (PyRaise, PyReturn, PyBreak, PyContinue) as ctl:
            pending = ctl
        for cm, tok in reversed(entered):
            self.world.ops.with_exit(self, cm, tok)
        if pending is not None:
            raise pending

    def st_Assert(self, s):
        if not self.truth(self.ev(s.test), f'assert@{s.lineno}'):
            self.raise_('AssertionError')

    def st_Break(self, s):
        raise PyBreak()

    def st_Continue(self, s):
        raise PyContinue()

    def st_Global(self, s):
        raise Unsupported('global statement')

    def st_Nonlocal(self, s):
        pass

    def st_FunctionDef(self, s):
        # nested def: a closure value; its body is only executed when called with `inline`
        self.env[s.name] = PV('closure', (s, self.frames[-1]))

    def st_Import(self, s):
        pass

    def st_ImportFrom(self, s):
        pass

    def st_For(self, s):
        self.world.loops.exec_for(self, s)

    def st_While(self, s):
        self.world.loops.exec_while(self, s)

    # ------------------------------------------------------- expressions
    def truth(self, v, why=''):
        if isinstance(v, PV):
            return True
        return self.branch(self.world.ops.truthy(self, v), why)

    def ev(self, e):
        m = getattr(self, 'ex_' + type(e).__name__, None)
        if m is None:
            raise Unsupported(f'expression {type(e).__name__}@{getattr(e, "lineno", 0)}')
        r = m(e)
        if isinstance(r, SV) and self.known and isinstance(e, (ast.Attribute, ast.Subscript, ast.Call)):
            return SV(self.refine(r.t), r.ty, r.src)
        return r

    def ex_Constant(self, e):
        if e.value is Ellipsis:
            raise Unsupported('Ellipsis')
        return SV(const(e.value))

    def ex_Name(self, e):
        return self.lookup(e.id, e)

    def lookup(self, name, node=None):
        fr = self.frames[-1]
        if name in fr.env:
            return fr.env[name]
        if name in fr.closure:
            return fr.closure[name]
        return self.world.resolve_global(self, name, fr)

    def ex_JoinedStr(self, e):
        # f-string: evaluate to an opaque string (formatting is not modelled), but
        # a conversion of a plain constant stays exact
        if all(isinstance(p, ast.Constant) for p in e.values):
            return SV(const(''.join(p.value for p in e.values)))
        return self.world.ops.fstring(self, e)

    def ex_FormattedValue(self, e):
        return self.world.ops.fstring(self, e)

    def ex_Tuple(self, e):
        items = [self.ev(x) for x in e.elts]
        tys = [(x.ty if isinstance(x, SV) and x.ty else '?') for x in items]
        ty = ('tuple|' + '|'.join(tys)) if any(t != '?' for t in tys) else None
        return SV(V.TupleV(vals.valseq([self.as_val(x) for x in items])), ty)

    def ex_List(self, e):
        if any(isinstance(x, ast.Starred) for x in e.elts):
            raise Unsupported('starred list')
        return SV(V.ListV(vals.valseq([self.as_val(self.ev(x)) for x in e.elts])))

    def ex_Set(self, e):
        items = [self.ev(x) for x in e.elts]
        for it in items:
            self.assume_or_unsupported(V.is_StrV(it.t), 'set of non-strings')
        return SV(V.SetV(vals.strset([V.s(it.t) for it in items])))

    def ex_Dict(self, e):
        pairs = []
        for k, v in zip(e.keys, e.values):
            if k is None:
                raise Unsupported('dict unpacking')
            kv = self.ev(k)
            self.assume_or_unsupported(V.is_StrV(kv.t), 'dict with non-string key')
            pairs.append((V.s(kv.t), self.as_val(self.ev(v))))
        return SV(vals.mkdict(pairs))

    def as_val(self, v):
        if isinstance(v, SV):
            return v.t
        return self.world.pv_to_val(self, v)

    def ex_UnaryOp(self, e):
        v = self.ev(e.operand)
        if isinstance(e.op, ast.Not):
            return SV(V.BoolV(z3.Not(self.world.ops.truthy(self, v))))
        return self.world.ops.unop(self, e.op, v)

    def eval_guarded(self, guard, expr):
        """evaluate expr with `guard` temporarily assumed; no fork may happen
        (probe mode); the path condition is restored afterwards"""
        snap_pc, snap_known = list(self.pc), list(self.known)
        snap_envs = [dict(fr.env) for fr in self.frames]
        self.probe += 1
        try:
            self.pc.append(guard)
            self.learn(guard)
            return self.ev(expr)
        finally:
            self.probe -= 1
            self.pc[:] = snap_pc
            self.known = snap_known
            # facts learnt under the guard must not leak into the variables
            for fr, env in zip(self.frames, snap_envs):
                fr.env = env

    def try_pure(self, guard, expr):
        """evaluate expr under the temporary assumption `guard` without forking;
        returns the value or None when the evaluation would fork, raise or have effects"""
        env = dict(self.env)
        heap, ghost, nobl = dict(self.heap), dict(self.ghost), len(self.obligations)
        pos, nscript = self.path.pos, len(self.path.script)
        counter, nfresh = self.counter, len(self.fresh_log)
        ok = False
        try:
            v = self.eval_guarded(guard, expr)
            if any(self.heap.get(f) is not heap.get(f) for f in self.heap if f in heap) or \
                    any(self.ghost.get(g) is not ghost.get(g) for g in self.ghost) or len(self.obligations) != nobl:
                return None
            ok = isinstance(v, SV)
            return v if ok else None
        except (ProbeFork, PyRaise, PathEnd):
            return None
        finally:
            if not ok:
                self.frames[-1].env = env
                self.heap, self.ghost = heap, ghost
                del self.obligations[nobl:]
                del self.path.script[nscript:]
                self.path.pos = pos
                self.counter = counter
                del self.fresh_log[nfresh:]

    def _combine_bool(self, isand, lt, left, right):
        from .ops import ctor
        if ctor(left.t) == 'BoolV' and ctor(right.t) == 'BoolV':
            lb, rb = left.t.arg(0), right.t.arg(0)
            return SV(V.BoolV(simp(z3.And(lb, rb) if isand else z3.Or(lb, rb))))
        return SV(simp(z3.If(lt, right.t, left.t) if isand else z3.If(lt, left.t, right.t)))

    def ex_BoolOp(self, e):
        # short-circuit with python value semantics.  In spec clauses a two-operand and/or whose
        # right operand evaluates without forking is combined into one if-then-else term
        if len(e.values) > 2 and self.mode == 'spec':
            # a and b and c  ==  a and (b and c): handled pairwise (each pair may combine without forking)
            rest = ast.BoolOp(op=e.op, values=list(e.values[1:]))
            ast.copy_location(rest, e)
            e2 = ast.BoolOp(op=e.op, values=[e.values[0], rest])
            ast.copy_location(e2, e)
            return self.ex_BoolOp(e2)
        if len(e.values) == 2 and self.mode == 'spec':
            left = self.ev(e.values[0])
            isand = isinstance(e.op, ast.And)
            if isinstance(left, SV):
                lt = self.refine(vals.truthy(left.t))
                if not z3.is_true(lt) and not z3.is_false(lt):
                    p = self.path
                    guard = lt if isand else z3.Not(lt)
                    if p.pos < len(p.script):
                        marker = p.script[p.pos]
                        p.pos += 1
                        if marker == -1:
                            right = self.eval_guarded(guard, e.values[1])
                            return self._combine_bool(isand, lt, left, right)
                    else:
                        pos0 = p.pos
                        right = self.try_pure(guard, e.values[1])
                        if right is not None:
                            p.script.insert(pos0, -1)
                            p.pos += 1
                            return self._combine_bool(isand, lt, left, right)
                        p.script.append(-2)
                        p.pos += 1
            t = self.truth(left, f'boolop@{e.lineno}')
            if isand:
                return self.ev(e.values[1]) if t else left
            return left if t else self.ev(e.values[1])
        last = None
        for k, x in enumerate(e.values):
            last = self.ev(x)
            if k == len(e.values) - 1:
                return last
            t = self.truth(last, f'boolop@{e.lineno}')
            if isinstance(e.op, ast.And) and not t:
                return last
            if isinstance(e.op, ast.Or) and t:
                return last
        return last

    def ex_IfExp(self, e):
        if self.mode == 'spec':
            test = self.ev(e.test)
            if isinstance(test, SV):
                c = self.refine(vals.truthy(test.t))
                if not z3.is_true(c) and not z3.is_false(c):
                    p = self.path
                    if p.pos < len(p.script):
                        marker = p.script[p.pos]
                        p.pos += 1
                        if marker == -1:
                            a = self.eval_guarded(c, e.body)
                            b = self.eval_guarded(z3.Not(c), e.orelse)
                            return SV(simp(z3.If(c, a.t, b.t)))
                    else:
                        pos0 = p.pos
                        a = self.try_pure(c, e.body)
                        b = self.try_pure(z3.Not(c), e.orelse) if a is not None else None
                        if a is not None and b is not None:
                            p.script.insert(pos0, -1)
                            p.pos += 1
                            return SV(simp(z3.If(c, a.t, b.t)))
                        if a is not None:
                            # undo the effects of the first probe on the script
                            del p.script[pos0:]
                            p.pos = pos0
                        p.script.append(-2)
                        p.pos += 1
                if self.branch(c, f'ifexp@{e.lineno}'):
                    return self.ev(e.body)
                return self.ev(e.orelse)
        if self.truth(self.ev(e.test), f'ifexp@{e.lineno}'):
            return self.ev(e.body)
        return self.ev(e.orelse)

    def ex_BinOp(self, e):
        a = self.ev(e.left)
        b = self.ev(e.right)
        return self.world.ops.binop(self, e.op, a, b)

    def ex_Compare(self, e):
        left = self.ev(e.left)
        result = None
        for op, rhs in zip(e.ops, e.comparators):
            right = self.ev(rhs)
            c = self.world.ops.compare(self, op, left, right)   # z3 Bool
            if len(e.ops) == 1:
                return SV(V.BoolV(c))
            # chained: a < b < c  ==  (a < b) and (b < c) with short circuit
            if len(e.ops) == 2 and op is e.ops[0]:
                c = self.refine(c)
                if not z3.is_true(c) and not z3.is_false(c):
                    p = self.path
                    rest = ast.Compare(left=_Lit(right), ops=[e.ops[1]], comparators=[e.comparators[1]])
                    ast.copy_location(rest, e)
                    if p.pos < len(p.script):
                        marker = p.script[p.pos]
                        p.pos += 1
                        if marker == -1:
                            r2 = self.eval_guarded(c, rest)
                            return SV(V.BoolV(simp(z3.And(c, V.b(r2.t)))))
                    else:
                        pos0 = p.pos
                        r2 = self.try_pure(c, rest)
                        if r2 is not None:
                            p.script.insert(pos0, -1)
                            p.pos += 1
                            return SV(V.BoolV(simp(z3.And(c, V.b(r2.t)))))
                        p.script.append(-2)
                        p.pos += 1
            if not self.branch(c, f'cmp@{e.lineno}'):
                return SV(const(False))
            left = right
            result = SV(const(True))
        return result

    def ex__Lit(self, e):
        return e.value

    def ex_Attribute(self, e):
        obj = self.ev(e.value)
        return self.world.ops.getattr(self, obj, e.attr, e)

    def ex_Subscript(self, e):
        obj = self.ev(e.value)
        if isinstance(e.slice, ast.Slice):
            lo = self.ev(e.slice.lower) if e.slice.lower is not None else None
            hi = self.ev(e.slice.upper) if e.slice.upper is not None else None
            if e.slice.step is not None:
                raise Unsupported('slice step')
            return self.world.ops.getslice(self, obj, lo, hi)
        idx = self.ev(e.slice)
        r = self.world.ops.getitem(self, obj, idx)
        if isinstance(r, SV) and r.src is None and self.mode == 'code':
            # a mutable container taken out of another container stays an alias of that slot
            r = SV(r.t, r.ty, e)
        return r

    def ex_Call(self, e):
        return self.world.calls.call_expr(self, e)

    def ex_Lambda(self, e):
        return PV('lambda', (e, self.frames[-1]))

    def ex_ListComp(self, e):
        return self.world.loops.comprehension(self, e, 'list')

    def ex_GeneratorExp(self, e):
        return PV('genexp', (e, self.frames[-1]))

    def ex_SetComp(self, e):
        return self.world.loops.comprehension(self, e, 'set')

    def ex_DictComp(self, e):
        return self.world.loops.comprehension(self, e, 'dict')

    def ex_Starred(self, e):
        raise Unsupported('starred expression')

    def ex_NamedExpr(self, e):
        v = self.ev(e.value)
        self.env[e.target.id] = v
        return v


class _Lit(ast.expr):
    """an already evaluated operand spliced into a synthetic expression"""
    _fields = ()

    def __init__(self, value):
        super().__init__()
        self.value = value
        self.lineno = 0
        self.col_offset = 0


def _load(tgt):
    n = ast.parse(ast.unparse(tgt), mode='eval').body
    ast.copy_location(n, tgt)
    for x in ast.walk(n):
        if not hasattr(x, 'lineno'):
            x.lineno = getattr(tgt, 'lineno', 0)
            x.col_offset = 0
    return n


def _store_target(node):
    return node


def explore(interp, run, max_paths=4000):
    """run(interp) under every feasible decision script.  `run` raises nothing
    except PathEnd; returns the list of per-path results run() returned"""
    results = []
    work = [[]]
    n = 0
    while work:
        script = work.pop()
        n += 1
        if n > max_paths:
            raise Unsupported(f'more than {max_paths} paths')
        path = Path(script)
        interp.reset(path)
        try:
            res = run(interp)
            results.append(res)
        except PathEnd:
            # a path that stops early (assumption false, loop iteration checked) still carries the
            # obligations generated before it stopped - e.g. invariant preservation
            if interp.obligations:
                results.append(('end', list(interp.obligations), interp.pathname()))
        work.extend(path.alternatives)
    return results
