"""Mechanical extraction of the verified text from /repo's working tree.

Every run re-reads the files; nothing is cached on disk.  What extraction
drops is listed in DROPPED (and repeated in each evidence file).
"""
import ast
import builtins
import hashlib
import os

REPO = os.environ.get('VERIF_REPO', '/repo')

DROPPED = [
    'docstrings',
    'calls self.log.* / log.* / self.comLog / print (assumed effect-free and non-raising; arguments not evaluated)',
    'the text of exception messages (an f-string / %-format inside raise X(...) is an opaque string; the class is kept)',
    'exception chaining clauses (from None / from e)',
    'comments',
]


class Source:
    def __init__(self, root=None):
        self.root = root or REPO
        self._files = {}

    def path(self, relfile):
        return os.path.join(self.root, relfile)

    def text(self, relfile):
        return self.load(relfile)[0]

    def load(self, relfile):
        if relfile not in self._files:
            with open(self.path(relfile), encoding='utf-8') as f:
                text = f.read()
            tree = ast.parse(text)
            self._files[relfile] = (text, tree)
        return self._files[relfile]

    def tree(self, relfile):
        return self.load(relfile)[1]

    # ------------------------------------------------------------ functions
    def find(self, relfile, qualname):
        """-> (node, enclosing class name or None).  qualname like
        'Class.method', 'func', 'Class.method.<inner>' or 'func.<inner>'"""
        parts = [p.strip('<>') for p in qualname.split('.')]
        body = self.tree(relfile).body
        node = None
        cls = None
        for k, p in enumerate(parts):
            found = None
            for n in _walk_defs(body):
                if isinstance(n, (ast.FunctionDef, ast.ClassDef, ast.AsyncFunctionDef)) and n.name == p:
                    found = n
                    break
            if found is None and k > 0 and isinstance(node, ast.FunctionDef):
                # nested def may sit inside if/for/try of the enclosing function
                for n in ast.walk(node):
                    if isinstance(n, ast.FunctionDef) and n.name == p and n is not node:
                        found = n
                        break
            if found is None:
                raise KeyError(f'{relfile}::{qualname}: {p!r} not found')
            if isinstance(found, ast.ClassDef):
                cls = found.name
            node = found
            body = found.body
        return node, cls

    def func(self, relfile, qualname):
        node, cls = self.find(relfile, qualname)
        if not isinstance(node, ast.FunctionDef):
            raise KeyError(f'{relfile}::{qualname} is not a function')
        return node, cls

    def func_info(self, relfile, qualname):
        node, _ = self.func(relfile, qualname)
        seg = ast.get_source_segment(self.text(relfile), node) or ''
        return {'file': relfile, 'function': qualname,
                'lines': [node.lineno, node.end_lineno],
                'sha256': hashlib.sha256(seg.encode()).hexdigest()}

    # -------------------------------------------------------------- classes
    def classes(self, relfile):
        res = {}
        for n in self.tree(relfile).body:
            if isinstance(n, ast.ClassDef):
                bases = []
                for b in n.bases:
                    if isinstance(b, ast.Name):
                        bases.append(b.id)
                    elif isinstance(b, ast.Attribute):
                        # a base from another module: keep it distinct from a local class of the same name
                        bases.append(ast.unparse(b))
                methods = {m.name: m for m in n.body if isinstance(m, ast.FunctionDef)}
                res[n.name] = {'bases': bases, 'methods': methods, 'node': n, 'file': relfile}
        return res

    def imports(self, relfile):
        """name -> (module dotted name, original name or None for module import)"""
        res = {}
        for n in ast.walk(self.tree(relfile)):
            if isinstance(n, ast.ImportFrom) and n.module:
                for a in n.names:
                    res[a.asname or a.name] = (n.module, a.name)
            elif isinstance(n, ast.Import):
                for a in n.names:
                    res[a.asname or a.name.split('.')[0]] = (a.name, None)
        return res

    def module_file(self, dotted):
        p = dotted.replace('.', '/')
        for cand in (p + '.py', p + '/__init__.py'):
            if os.path.exists(self.path(cand)):
                return cand
        return None

    def module_consts(self, relfile):
        """module level NAME = <constant expression> (ints, strs, floats, << + - * of those)"""
        env = {}
        for n in self.tree(relfile).body:
            if isinstance(n, ast.Assign) and len(n.targets) == 1 and isinstance(n.targets[0], ast.Name):
                try:
                    env[n.targets[0].id] = _consteval(n.value, env)
                except _NotConst:
                    pass
        return env


class _NotConst(Exception):
    pass


def _consteval(node, env):
    if isinstance(node, ast.Constant):
        return node.value
    if isinstance(node, ast.Name):
        if node.id in env:
            return env[node.id]
        raise _NotConst
    if isinstance(node, ast.UnaryOp) and isinstance(node.op, ast.USub):
        return -_consteval(node.operand, env)
    if isinstance(node, ast.BinOp):
        a, b = _consteval(node.left, env), _consteval(node.right, env)
        if isinstance(node.op, ast.LShift):
            return a << b
        if isinstance(node.op, ast.Add):
            return a + b
        if isinstance(node.op, ast.Sub):
            return a - b
        if isinstance(node.op, ast.Mult):
            return a * b
        if isinstance(node.op, ast.Pow) and isinstance(a, int) and isinstance(b, int) and 0 <= b <= 64:
            return a ** b
        raise _NotConst
    if isinstance(node, ast.Tuple):
        return tuple(_consteval(e, env) for e in node.elts)
    if isinstance(node, ast.Attribute):
        # sys.float_info.max / min
        if isinstance(node.value, ast.Attribute) and isinstance(node.value.value, ast.Name) \
                and node.value.value.id == 'sys' and node.value.attr == 'float_info':
            import sys
            return getattr(sys.float_info, node.attr)
    raise _NotConst


def _walk_defs(body):
    for n in body:
        yield n


# --------------------------------------------------------- exception classes

def exception_hierarchy(src):
    """class name -> list of base names, for frappy.errors + the builtin exceptions"""
    h = {}
    for name in dir(builtins):
        obj = getattr(builtins, name)
        if isinstance(obj, type) and issubclass(obj, BaseException):
            h[name] = [b.__name__ for b in obj.__bases__ if issubclass(b, BaseException)]
    for cname, info in src.classes('frappy/errors.py').items():
        h[cname] = list(info['bases'])
    # exceptions of the standard library that the verified code names
    h.setdefault('JSONDecodeError', ['ValueError'])
    h.setdefault('binascii.Error', ['ValueError'])
    h.setdefault('socket.timeout', ['OSError'])
    h.setdefault('socket.error', ['OSError'])
    h.setdefault('queue.Empty', ['Exception'])
    h.setdefault('OtherException', ['Exception'])   # any user-defined exception
    return h
