"""World (sources + sidecar contracts), contract application at call sites,
obligation generation for a function under contract, and discharge.
"""
import ast
import hashlib
import importlib.util
import os
import subprocess
import sys
import tempfile
import time
import z3

from . import vals, extract
from .vals import V, Val, IntS, StrS, BoolS, simp, const
from .engine import (Interp, SV, PV, PyRaise, PyReturn, Unsupported, PathEnd, Path, Frame, Obligation,
                     ClassIds, CLSOF, explore)
from .ops import Ops
from .calls import Calls, Builtins
from .loops import Loops
from . import ops as O

VERIF = os.path.dirname(os.path.dirname(os.path.abspath(__file__)))


def load_contract_module(path):
    spec = importlib.util.spec_from_file_location('contracts_' + os.path.basename(path)[:-3], path)
    mod = importlib.util.module_from_spec(spec)
    spec.loader.exec_module(mod)
    return mod


def c3(cls, bases_of):
    """C3 linearisation over the classes we know"""
    def merge(seqs):
        res = []
        seqs = [list(s) for s in seqs if s]
        while seqs:
            for s in seqs:
                h = s[0]
                if not any(h in t[1:] for t in seqs):
                    break
            else:
                raise Unsupported(f'inconsistent MRO for {cls}')
            res.append(h)
            seqs = [[x for x in t if x != h] for t in seqs]
            seqs = [t for t in seqs if t]
        return res
    bases = [b for b in bases_of(cls)]
    return [cls] + merge([c3(b, bases_of) for b in bases] + [bases])


class DynAttr:
    """getattr/hasattr/setattr with computed names: a per-object map name -> value"""

    def __init__(self, world):
        self.world = world

    def _name(self, it, name):
        if it.feasible(z3.Not(V.is_StrV(name.t))):
            it.raise_('TypeError')
        return V.s(name.t)

    def const_name(self, name):
        t = simp(name.t)
        if vals.tag_of(t) == 'StrV' and z3.is_string_value(simp(V.s(t))):
            return simp(V.s(t)).as_string()
        return None

    def has_arr(self, it):
        if 'dyn!has' not in it.heap:
            it.heap['dyn!has'] = z3.Const('H0!dyn!has', z3.ArraySort(IntS, z3.ArraySort(StrS, BoolS)))
        return it.heap['dyn!has']

    def val_arr(self, it):
        if 'dyn!val' not in it.heap:
            it.heap['dyn!val'] = z3.Const('H0!dyn!val', z3.ArraySort(IntS, z3.ArraySort(StrS, Val)))
        return it.heap['dyn!val']

    def hasattr(self, it, obj, name):
        cn = self.const_name(name)
        if cn is not None and isinstance(obj, SV) and obj.ty in self.world.classes \
                and cn in (self.world.classes[obj.ty].get('dyn_fields') or {}):
            return SV(V.BoolV(z3.Select(z3.Select(self.has_arr(it), V.oid(obj.t)), z3.StringVal(cn))))
        if cn is not None and isinstance(obj, SV) and obj.ty in self.world.classes:
            w = self.world
            if w.field_type(obj.ty, cn) is not None or w.defining_class(obj.ty, cn) is not None:
                return SV(const(True))
        if isinstance(obj, PV):
            raise Unsupported('hasattr on function/class value')
        s = self._name(it, name)
        return SV(V.BoolV(z3.Select(z3.Select(self.has_arr(it), V.oid(obj.t)), s)))

    def getattr(self, it, obj, name, default):
        cn = self.const_name(name)
        if cn is not None and isinstance(obj, SV) and obj.ty in self.world.classes \
                and cn in (self.world.classes[obj.ty].get('dyn_fields') or {}) and it.mode == 'spec':
            dty = self.world.classes[obj.ty]['dyn_fields'][cn]
            val = z3.Select(z3.Select(self.val_arr(it), V.oid(obj.t)), z3.StringVal(cn))
            return SV(val, dty if dty in self.world.classes else None)
        if cn is not None:
            try:
                return self.world.calls.getattr(it, obj, cn, None)
            except PyRaise:
                if default is None:
                    raise
                return default
        if isinstance(obj, PV):
            raise Unsupported('getattr on function/class value')
        s = self._name(it, name)
        has = z3.Select(z3.Select(self.has_arr(it), V.oid(obj.t)), s)
        k = it.choose([has, z3.Not(has)], 'getattr')
        if k == 1:
            if default is None:
                it.raise_('AttributeError')
            return default
        dt = self.world.dyn_type(obj.ty, s, it)
        if dt is not None:
            _, key, param, suffix = dt
            return PV('abstract', {'contract': key, 'bound': {'self': obj, param: SV(V.StrV(suffix))}})
        return SV(z3.Select(z3.Select(self.val_arr(it), V.oid(obj.t)), s), None)

    def setattr(self, it, obj, name, v):
        cn = self.const_name(name)
        if cn is not None:
            self.world.calls.setattr(it, obj, cn, v)
            return SV(V.NoneV)
        s = self._name(it, name)
        o = V.oid(obj.t)
        ha, va = self.has_arr(it), self.val_arr(it)
        it.heap['dyn!has'] = z3.Store(ha, o, z3.Store(z3.Select(ha, o), s, z3.BoolVal(True)))
        it.heap['dyn!val'] = z3.Store(va, o, z3.Store(z3.Select(va, o), s, it.as_val(v)))
        return SV(V.NoneV)


class World:
    def __init__(self, contract_files, repo=None):
        self.src = extract.Source(repo)
        self.cids = ClassIds()
        self.ops = Ops(self)
        self.calls = Calls(self)
        self.builtins = Builtins(self)
        self.loops = Loops(self)
        self.dynattr = DynAttr(self)
        self.contracts = {}
        self.classes = {}
        self.specs = {}
        self.dispatched = set()
        self.inline = set()
        self.loopspecs = {}
        self.consts = {}
        self.modules = []
        self.ufs = {}
        self.inlined_log = set()
        self.current = None
        self.assumptions = []
        self.dyn_types = {}
        self.spec_consts = {}
        self.dispatch_fallback = {}
        self.uf_decls = {}
        self.ghost_names = set()
        self.abstract_facts = {}
        hier = extract.exception_hierarchy(self.src)
        for name, bases in hier.items():
            if name not in self.cids.ALIASES:
                self.cids.add(name, bases)
        for name, bases in hier.items():
            if name in self.cids.ALIASES:
                self.cids.add(name, bases)
        for name in sorted(BUILTIN_TYPE_NAMES):
            self.cids.add(name, ['int'] if name == 'bool' else [])
        for cf in contract_files:
            self.load(cf)

    # ------------------------------------------------------------- loading
    def load(self, path):
        mod = load_contract_module(path)
        self.modules.append(mod)
        text = open(path, encoding='utf-8').read()
        tree = ast.parse(text)
        for n in tree.body:
            if isinstance(n, ast.FunctionDef):
                self.specs[n.name] = (n, path)
        for k, v in vars(mod).items():
            if k.isupper() and isinstance(v, (int, float, str)) and not isinstance(v, bool) and k != 'CONTEXT_FILE':
                self.spec_consts[k] = v
            elif k.isupper() and isinstance(v, dict) and k not in ('CLASSES', 'LOOPS', 'UFS', 'DYN_TYPES', 'ABSTRACT_FACTS',
                                                                   'DISPATCH_FALLBACK') and _plain(v):
                self.spec_consts[k] = v
        self.ghost_names |= set(getattr(mod, 'GHOSTS', []))
        for k, v in getattr(mod, 'ABSTRACT_FACTS', {}).items():
            self.abstract_facts.setdefault(k, []).extend(v)
        self.dispatched |= set(getattr(mod, 'DISPATCHED', []))
        self.dispatch_fallback.update(getattr(mod, 'DISPATCH_FALLBACK', {}))
        for uname, sig in getattr(mod, 'UFS', {}).items():
            self.uf_decls[uname] = sig
        self.inline |= set(getattr(mod, 'INLINE', []))
        self.assumptions += list(getattr(mod, 'ASSUMPTIONS', []))
        self.dyn_types.update(getattr(mod, 'DYN_TYPES', {}))
        for relfile in getattr(mod, 'SOURCES', []):
            for cname, info in self.src.classes(relfile).items():
                if cname in self.classes and self.classes[cname].get('file') != relfile:
                    continue
                d = self.classes.setdefault(cname, {})
                d.update(info)
                d.setdefault('fields', {})
                d.setdefault('inv', [])
                if cname not in self.cids.ids or not self.cids.issub(cname, 'BaseException'):
                    self.cids.add(cname, info['bases'])
            self.consts.setdefault(relfile, self.src.module_consts(relfile))
        for cname, sch in getattr(mod, 'CLASSES', {}).items():
            d = self.classes.setdefault(cname, {'bases': sch.get('bases', []), 'methods': {}, 'file': None,
                                                'fields': {}, 'inv': []})
            if cname not in self.cids.ids:
                self.cids.add(cname, d['bases'])
            for k, v in sch.items():
                if k == 'fields':
                    d['fields'].update(v)
                elif k == 'inv':
                    d['inv'] = list(d.get('inv', [])) + list(v)
                else:
                    d[k] = v
        for c in getattr(mod, 'CONTRACTS', []):
            c = dict(c)
            c['module'] = path
            c.setdefault('requires', [])
            c.setdefault('ensures', {})
            c.setdefault('raises', {})
            c.setdefault('modifies', [])
            c.setdefault('params', {})
            self.contracts[c['key']] = c
        for key, spec in getattr(mod, 'LOOPS', {}).items():
            self.loopspecs[key] = spec

    def contract(self, key):
        if key not in self.contracts:
            raise Unsupported(f'no contract {key}')
        return self.contracts[key]

    # -------------------------------------------------------- class queries
    def bases_of(self, cls):
        return [b for b in self.classes.get(cls, {}).get('bases', []) if b in self.classes]

    def mro(self, cls):
        return c3(cls, self.bases_of)

    def defining_class(self, cls, mname):
        if cls not in self.classes:
            return None
        for c in self.mro(cls):
            if mname in self.classes[c].get('methods', {}):
                return c
        return None

    def field_type(self, cls, name):
        if cls not in self.classes:
            return None
        for c in self.mro(cls):
            f = self.classes[c].get('fields', {})
            if name in f:
                return f[name]
        return None

    def all_fields(self, cls):
        res = {}
        for c in reversed(self.mro(cls)):
            res.update(self.classes[c].get('fields', {}))
        return res

    def may_inline(self, cls, name):
        return (f'{cls}.{name}' if cls else name) in self.inline

    def note_inlined(self, what):
        self.inlined_log.add(what)

    def is_current_target(self, it, c, obj):
        """a function is verified against its body, not its own contract, unless the call is recursive"""
        return False

    def class_const(self, cls, name):
        for c in self.mro(cls):
            node = self.classes[c].get('node')
            if node is None:
                continue
            for n in node.body:
                if isinstance(n, ast.Assign) and len(n.targets) == 1 and isinstance(n.targets[0], ast.Name) \
                        and n.targets[0].id == name:
                    try:
                        return SV(const(extract._consteval(n.value, self.consts.get(self.classes[c]['file'], {}))))
                    except (extract._NotConst, TypeError):
                        return None
        return None

    def class_attr(self, it, cls, name):
        if cls in self.classes:
            d = self.defining_class(cls, name)
            if d is not None:
                return PV('unbound', (cls, name))
            c = self.class_const(cls, name)
            if c is not None:
                return c
        if name == '__name__':
            return SV(const(cls))
        raise Unsupported(f'class attribute {cls}.{name}')

    def check_field_write(self, it, obj, cls, name):
        if self.field_type(cls, name) is None and not self.classes[cls].get('open_writes'):
            raise Unsupported(f'write to undeclared field {cls}.{name}')

    def dyn_type(self, ty, s, it):
        """static type of a dynamically named attribute: DYN_TYPES[class] = [(prefix, contract key, bound param)]"""
        for cls in (self.mro(ty) if ty in self.classes else []):
            for prefix, key, param in self.dyn_types.get(cls, []):
                ss = simp(s)
                if z3.is_app(ss) and ss.decl().kind() == z3.Z3_OP_SEQ_CONCAT and z3.is_string_value(ss.arg(0)) \
                        and ss.arg(0).as_string() == prefix and ss.num_args() == 2:
                    return ('dyn', key, param, ss.arg(1))
                if z3.is_string_value(ss) and ss.as_string().startswith(prefix):
                    return ('dyn', key, param, z3.StringVal(ss.as_string()[len(prefix):]))
        return None

    # ------------------------------------------------------- name resolution
    def resolve_global(self, it, name, frame):
        if name in self.specs:
            if name in self.dispatched:
                return PV('dispatch', name)
            return PV('spec', name)
        if name in self.dispatched:
            return PV('dispatch', name)
        if name == 'old':
            return PV('old', None)
        if name in self.uf_decls:
            return PV('uf', name)
        if name in self.ghost_names:
            return SV(V.ListV(self.ghost_seq(it, name)), 'list:tuple')
        if name == 'inv':
            return PV('inv', None)
        if name == 'open' and 'open' in self.contracts:
            return PV('abstract', {'contract': 'open', 'bound': {}})
        if name in Builtins.NAMES:
            return PV('builtin', name)
        if name in ('True', 'False', 'None'):
            return SV(const({'True': True, 'False': False, 'None': None}[name]))
        fkey = frame.fkey
        file = fkey[1] if fkey[0] == 'spec' else fkey[0]
        if fkey[0] == 'spec':
            if name in self.spec_consts:
                for ax in vals.int_key_axioms(self.spec_consts[name]):
                    it.assume_axiom(ax)
                return SV(const(self.spec_consts[name]))
            file = self.context_file(fkey[1])
        return self.resolve_in_file(it, name, file)

    def context_file(self, contract_path):
        for m in self.modules:
            if m.__file__ == contract_path:
                return getattr(m, 'CONTEXT_FILE', None)
        return None

    def resolve_in_file(self, it, name, file, depth=0):
        if name in self.classes and (file is None or self.classes[name].get('file') in (file, None)):
            return PV('class', name)
        if name in self.cids.ids and name not in self.classes:
            return PV('class', name)
        if file is None:
            if name in self.classes:
                return PV('class', name)
            raise Unsupported(f'unresolved name {name}')
        mv = (self.current or {}).get('module_values', {})
        if name in mv:
            # module-level table whose value is given by the contract (stated assumption, validated bounded)
            for ax in vals.int_key_axioms(mv[name]):
                it.assume_axiom(ax)
            return SV(const(mv[name]))
        if (file, name) in SPECIAL_GLOBALS:
            return PV('modattr', SPECIAL_GLOBALS[(file, name)])
        if name in SINGLETONS and self._is_unique_object(file, name):
            return SV(V.ObjV(z3.IntVal(SINGLETONS[name])))
        consts = self.consts.setdefault(file, self.src.module_consts(file))
        if name in consts:
            return SV(const(consts[name]))
        # module-level function
        for n in self.src.tree(file).body:
            if isinstance(n, ast.Assign) and len(n.targets) == 1 and isinstance(n.targets[0], ast.Name) \
                    and n.targets[0].id == name and isinstance(n.value, ast.JoinedStr):
                # a module-level f-string constant: some fixed string (its text is not modelled)
                return SV(V.StrV(z3.String(f'modstr!{file}!{name}')), 'str')
            if isinstance(n, ast.FunctionDef) and n.name == name:
                return PV('func', (file, name))
            if isinstance(n, ast.ClassDef) and n.name == name:
                if name in self.classes:
                    return PV('class', name)
                raise Unsupported(f'class {name} of {file} is not in the class table (add the file to SOURCES)')
        imps = self.src.imports(file)
        if name in imps:
            mod, orig = imps[name]
            if orig is None:
                return PV('module', mod)
            mfile = self.src.module_file(mod)
            if mfile is not None and depth < 3:
                return self.resolve_in_file(it, orig, mfile, depth + 1)
            return self.module_attr(it, mod, orig)
        if name in self.classes:
            return PV('class', name)
        if name in BUILTIN_TYPE_NAMES:
            return PV('class', name)
        raise Unsupported(f'unresolved name {name} in {file}')

    def _is_unique_object(self, file, name):
        """NAME = UniqueObject(...) at module level (Done, UNSET): a distinguished object constant"""
        for n in self.src.tree(file).body:
            if isinstance(n, ast.Assign) and len(n.targets) == 1 and isinstance(n.targets[0], ast.Name) \
                    and n.targets[0].id == name and isinstance(n.value, ast.Call) \
                    and isinstance(n.value.func, ast.Name) and n.value.func.id == 'UniqueObject':
                return True
        return False

    def module_attr(self, it, mod, name):
        full = mod if name is None else f'{mod}.{name}'
        table = {
            'sys.float_info.max': sys.float_info.max,
            'sys.float_info.min': sys.float_info.min,
        }
        if full in table:
            return SV(const(table[full]))
        if full in ('sys.float_info', 'sys'):
            return PV('modattr', full)
        if full == 'frappy.lib.generalConfig':
            return PV('modattr', full)
        if full == 'frappy.lib.generalConfig.lazy_number_validation':
            return SV(const(False))      # assumption A2
        if full in ('base64.b64decode', 'base64.b64encode'):
            return PV('builtin', name)
        if full in self.contracts and self.contracts[full].get('file') is None and full in MODULE_FUNCS \
                and not MODULE_FUNCS[full].startswith('contract:'):
            # the sidecar file states its own contract for this external function
            return PV('abstract', {'contract': full, 'bound': {}})
        if full in MODULE_FUNCS:
            if MODULE_FUNCS[full].startswith('contract:'):
                return PV('abstract', {'contract': MODULE_FUNCS[full][9:], 'bound': {}})
            return PV('builtin', MODULE_FUNCS[full])
        if full in MODULE_CLASSES:
            return PV('class', MODULE_CLASSES[full])
        if full in self.cids.ids:
            return PV('class', full)      # an exception class of the standard library known to the hierarchy
        if full in self.contracts and self.contracts[full].get('file') is None:
            # an external function under an assumed contract of the sidecar file (listed as trusted)
            return PV('abstract', {'contract': full, 'bound': {}})
        raise Unsupported(f'module attribute {full}')

    def pv_to_val(self, it, v):
        if v.kind == 'class' or (v.kind == 'builtin' and v.data in BUILTIN_TYPE_NAMES):
            return V.ClsV(z3.IntVal(self.cids.id(v.data)))
        raise Unsupported(f'{v} stored as a value')

    # ------------------------------------------------------------ loop specs
    def loop_spec(self, fkey, s, kind):
        if fkey[0] == 'spec':
            return None
        file, qual = fkey
        # ordinal of the loop within its function
        fdef, _ = self.src.func(file, qual)
        ordn = 0
        for n in ast.walk(fdef):
            if isinstance(n, (ast.For, ast.While)):
                if n.lineno == s.lineno and n.col_offset == s.col_offset:
                    break
                ordn += 1
        key = f'{qual}#{ordn}'
        spec = self.loopspecs.get(key)
        if spec is None:
            return None
        header = ast.unparse(s.iter) if isinstance(s, ast.For) else ast.unparse(s.test)
        if spec.get('header') is not None and spec['header'] != header:
            raise Unsupported(f'loop {key}: header changed ({header!r} != {spec["header"]!r}); invariant no longer applies')
        spec = dict(spec)
        spec['label'] = key
        return spec

    # ----------------------------------------------------------- spec eval
    def eval_spec(self, it, text, env, ctx=None, polarity=None):
        saved_pol = it.polarity
        if polarity is not None:
            it.polarity = polarity
        try:
            return self._eval_spec(it, text, env, ctx)
        finally:
            it.polarity = saved_pol

    def clause(self, it, text, env, ctx=None, polarity='oblige'):
        """a contract clause as one formula: the clause is evaluated under all its own branchings in a
        sub-exploration (the state is restored afterwards), so that forks inside one clause do not
        multiply the paths of the function under verification.  Result: And_k (branch_k => value_k)."""
        outcomes = self.loops.sub_explore(it, lambda: self.eval_spec(it, text, env, ctx, polarity))
        parts = []
        for kind, v, pcs, fresh in outcomes:
            val = vals.truthy(v.t) if kind == 'val' and isinstance(v, SV) else z3.BoolVal(kind == 'val')
            parts.append(z3.Implies(z3.And(*pcs) if pcs else z3.BoolVal(True), val))
        return z3.And(*parts) if parts else z3.BoolVal(True)

    def _eval_spec(self, it, text, env, ctx=None):
        node = ast.parse(text.strip(), mode='eval').body
        frame = Frame(dict(env), ('spec', ctx or (self.current or {}).get('module'), '<clause>'), None)
        it.frames.append(frame)
        saved = it.mode
        it.mode = 'spec'
        try:
            return it.ev(node)
        except PyRaise:
            # a clause whose evaluation raises is false on that path
            return SV(const(False))
        finally:
            it.mode = saved
            it.frames.pop()

    def ghost_seq(self, it, name):
        if name not in it.ghost:
            it.ghost[name] = z3.Const(f'in!ghost!{name}', vals.SeqVal)
        return it.ghost[name]

    def uf(self, name, sorts):
        key = (name, tuple(str(s) for s in sorts))
        if key not in self.ufs:
            self.ufs[key] = z3.Function(name, *sorts)
        return self.ufs[key]

    def call_uf(self, it, name, args):
        argsorts, ressort = self.uf_decls[name][:2]
        restype = self.uf_decls[name][2] if len(self.uf_decls[name]) > 2 else None
        conv = {'obj': (IntS, lambda v: V.oid(v)), 'str': (StrS, lambda v: V.s(v)), 'int': (IntS, lambda v: O.ival(v)),
                'val': (Val, lambda v: v), 'bool': (BoolS, lambda v: vals.truthy(v))}
        back = {'bool': (BoolS, V.BoolV), 'int': (IntS, V.IntV), 'str': (StrS, V.StrV), 'val': (Val, lambda x: x),
                'obj': (IntS, V.ObjV)}
        f = self.uf('uf!' + name, [conv[a][0] for a in argsorts] + [back[ressort][0]])
        ts = [conv[a][1](it.as_val(v)) for a, v in zip(argsorts, args)]
        res = back[ressort][1](f(*ts))
        if restype:
            it.assume_axiom(self.kind_pred(it, res, restype))
            cls = _static_ty(restype)
            key = ('ufinv', res.get_id())
            if cls in self.classes and not self.classes[cls].get('abstract') and key not in it.lazy_done and not it.in_lazy:
                # objects handed out by the view function satisfy their class invariant (assumed environment)
                it.lazy_done.add(key)
                saved = it.polarity
                it.polarity = 'assume'
                snap_pc, snap_known = list(it.pc), list(it.known)
                try:
                    it.pc.append(V.is_ObjV(res))
                    it.learn(V.is_ObjV(res))
                    inv = self.class_invariant(it, SV(it.refine(res), cls), cls)
                    it.pc[:] = snap_pc
                    it.known = snap_known
                    it.assume_axiom(z3.Implies(V.is_ObjV(res), inv))
                finally:
                    it.polarity = saved
                    it.pc[:] = snap_pc
                    it.known = snap_known
        return SV(res, _static_ty(restype))

    def call_dispatch(self, it, name, args, kwargs):
        if not args:
            raise Unsupported(f'dispatched spec {name} without receiver')
        recv = args[0]
        cls = recv.ty if isinstance(recv, SV) else None
        if cls in self.classes and not self.classes[cls].get('abstract'):
            nm = name
            while nm is not None:
                for c in self.mro(cls):
                    if f'{nm}_{c}' in self.specs:
                        return self.calls.call_spec(it, f'{nm}_{c}', args, kwargs)
                nm = self.dispatch_fallback.get(nm)
            if name in self.specs:
                return self.calls.call_spec(it, name, args, kwargs)
            raise Unsupported(f'no spec {name}_{cls}')
        # abstract receiver: uninterpreted, a function of the object identity
        rest = [it.as_val(a) for a in args[1:]]
        f = self.uf(f'{name}!U', [IntS] + [Val] * len(rest) + [BoolS])
        app = f(V.oid(recv.t), *rest)
        # kind facts every concrete spec of that name implies (e.g. a member of a tuple type is a tuple)
        for clsname, pred in self.abstract_facts.get(name, []):
            if clsname in self.cids.ids:
                it.assume_axiom(z3.Implies(z3.And(app, self.cids.sub(CLSOF(V.oid(recv.t)), clsname)),
                                           self.kind_pred(it, rest[0], pred)))
        return SV(V.BoolV(app))

    # ----------------------------------------------------- class invariants
    def type_invariant(self, it, obj, cls):
        """z3 Bool: the fields of obj have their declared kinds"""
        cs = []
        for fname, fty in self.all_fields(cls).items():
            if fty.startswith('const:'):
                continue
            v = it.read_field(obj.t, fname)
            cs.append(self.kind_pred(it, v, fty))
        return z3.And(*cs) if cs else z3.BoolVal(True)

    def kind_pred(self, it, v, fty):
        if fty.startswith('tuple|'):
            n = len(fty.split('|')) - 1
            return z3.And(V.is_TupleV(v), z3.Length(V.titems(v)) == n)
        if '|none' in fty:
            base = fty.replace('|none', '')
            return z3.Or(V.is_NoneV(v), self.kind_pred(it, v, base))
        m = {'int': V.is_IntV(v), 'float': z3.And(V.is_FloatV(v), V.r(v) <= vals.FMAXR, V.r(v) >= -vals.FMAXR),
             'bool': V.is_BoolV(v), 'str': V.is_StrV(v), 'bytes': V.is_BytesV(v), 'any': z3.BoolVal(True),
             'number': vals.is_number(v), 'tuple': V.is_TupleV(v), 'list': V.is_ListV(v), 'dict': V.is_DictV(v),
             'set': V.is_SetV(v), 'set[obj]': V.is_SetV(v), 'none': V.is_NoneV(v), 'lock': V.is_ObjV(v), 'rlock': V.is_ObjV(v),
             'enum': V.is_EnumV(v)}
        if fty in m:
            return m[fty]
        if ':' in fty:
            kind, ety = fty.split(':', 1)
            # the kinds of the elements are not asserted as a quantified fact: they are attached to each
            # element when it is looked up / iterated (element_kind), justified by the declared field type
            if kind in ('tuple', 'list'):
                return V.is_TupleV(v) if kind == 'tuple' else V.is_ListV(v)
            if kind.split('[', 1)[0] in ('dict', 'enumdict'):
                return V.is_DictV(v)
            if kind.split('[', 1)[0] == 'set':
                return V.is_SetV(v)
            if kind == 'callable':
                return z3.And(V.is_ObjV(v), self.uf('callable!', [IntS, BoolS])(V.oid(v)))
        if fty in self.classes:
            return z3.And(V.is_ObjV(v), self.cids.sub(CLSOF(V.oid(v)), fty))
        raise Unsupported(f'unknown field type {fty}')

    def element_kind(self, it, term, ety, guard=None):
        """an element taken from a container with declared element type has that kind"""
        if not ety or ety in ('any', '?'):
            return
        try:
            f = self.kind_pred(it, term, ety)
        except Unsupported:
            return
        it.assume_axiom(f if guard is None else z3.Implies(guard, f))

    def class_invariant(self, it, obj, cls):
        """assumable/provable invariant of an object of static class cls (SV Bool)"""
        if self.classes[cls].get('abstract'):
            f = self.uf('inv!U', [IntS, BoolS])
            return z3.And(V.is_ObjV(obj.t), self.cids.sub(CLSOF(V.oid(obj.t)), cls), f(V.oid(obj.t)))
        tinv = self.type_invariant(it, obj, cls)
        if it.polarity == 'assume':
            # the invariant is being assumed: evaluate the rest under the kinds it fixes, without forking
            snap_pc, snap_known = list(it.pc), list(it.known)
            snap_envs = [dict(fr.env) for fr in it.frames]
            try:
                it.pc.append(it.refine(tinv))
                it.learn(it.refine(tinv))
                return z3.And(tinv, self._class_invariant_rest(it, obj, cls))
            finally:
                it.pc[:] = snap_pc
                it.known = snap_known
                for fr, env in zip(it.frames, snap_envs):
                    fr.env = env
        if not it.branch(tinv, 'type invariant'):
            return z3.BoolVal(False)
        return z3.And(tinv, self._class_invariant_rest(it, obj, cls))

    def _class_invariant_rest(self, it, obj, cls):
        parts = []
        for c in self.mro(cls):
            for text in self.property_invariants(c) + list(self.classes[c].get('inv', [])):
                v = self.eval_spec(it, text, {'self': obj}, ctx=self.classes[c].get('contract_module'))
                parts.append(vals.truthy(v.t))
            # element invariants of dict fields: for all keys k of self.<field>: P(self, k, self.<field>[k])
            for field, text in self.classes[c].get('elem_inv', {}).items():
                d = it.read_field(obj.t, field)
                if it.polarity == 'assume':
                    # not asserted as a quantified hypothesis: instantiated when a key of the dict is looked up
                    it.lazy_inv.append({'obj': obj, 'field': field, 'text': text, 'heap': dict(it.heap),
                                        'ghost': dict(it.ghost), 'dict': d, 'ctx': self.classes[c].get('contract_module')})
                else:
                    k = it.fresh('ek', StrS)
                    body = self.eval_spec(it, text, {'self': obj, 'k': SV(V.StrV(k)), 'v': SV(z3.Select(V.dmap(d), k),
                                          O._elem_type(self.field_type(cls, field)))}, ctx=self.classes[c].get('contract_module'))
                    # k is a fresh constant: proving the instance for it proves it for all keys
                    parts.append(z3.Implies(z3.Select(V.dhas(d), k), vals.truthy(body.t)))
        return z3.And(*parts)

    def lazy_instantiate(self, it, dterm, key):
        """a key of a dict with a pending element invariant is looked up: assume the invariant for that key"""
        if not it.lazy_inv or it.in_lazy:
            return
        dterm = it.refine(dterm)
        for ent in list(it.lazy_inv):
            if not (it.refine(ent['dict']).eq(dterm)
                    or simp(V.dhas(it.refine(ent['dict']))).eq(simp(V.dhas(dterm)))):
                continue
            tag = (ent['field'], ent['obj'].t.get_id(), it.refine(key).get_id(), id(ent))
            if tag in it.lazy_done:
                continue
            it.lazy_done.add(tag)
            cur = (it.heap, it.ghost)
            it.in_lazy = True
            try:
                it.heap, it.ghost = dict(ent['heap']), dict(ent['ghost'])
                cls = ent['obj'].ty
                elty = O._elem_type(self.field_type(cls, ent['field']))
                has = z3.Select(V.dhas(dterm), key)
                el = z3.Select(V.dmap(dterm), key)
                self.element_kind(it, el, elty, guard=has)
                it.pc.append(has)
                try:
                    body = self.clause(it, ent['text'], {'self': ent['obj'], 'k': SV(V.StrV(key)), 'v': SV(el, elty)},
                                       ent['ctx'], 'assume')
                finally:
                    for j in range(len(it.pc) - 1, -1, -1):
                        if it.pc[j].eq(has):
                            del it.pc[j]
                            break
                fact = z3.Implies(has, body)
            except (PathEnd, PyRaise, Unsupported) as e:
                if os.environ.get('PYVC_DEBUG'):
                    print('lazy instantiation failed:', ent['field'], ent['text'], type(e).__name__, getattr(e, 'args', ''))
                fact = None
            finally:
                it.in_lazy = False
                it.heap, it.ghost = cur
            if os.environ.get('PYVC_DEBUG'):
                print('lazy instantiation', ent['field'], 'key', it.refine(key), '->', 'fact' if fact is not None else 'none', str(z3.simplify(fact)).replace(chr(10), ' ')[:1500] if fact is not None else '')
            if fact is not None:
                it.assume_axiom(fact)

    def property_invariants(self, cls):
        """invariants read mechanically from `name = Property(descr, <datatype>, ...)` declarations"""
        info = self.classes.get(cls, {})
        if 'propinv' in info:
            return info['propinv']
        res = []
        node = info.get('node')
        consts = self.consts.get(info.get('file'), {})
        names = []
        if node is not None:
            for n in node.body:
                if isinstance(n, ast.Assign) and isinstance(n.value, ast.Call) and \
                        isinstance(n.value.func, ast.Name) and n.value.func.id == 'Property' and len(n.value.args) >= 2:
                    pname = n.targets[0].id
                    if pname not in self.all_fields(cls):
                        continue
                    spec = _dt_spec(n.value.args[1], consts)
                    names.append(pname)
                    if spec is None:
                        continue
                    kind, lo, hi = spec
                    f = f'self.{pname}'
                    if kind == 'int':
                        res.append(f'is_int({f}) and {lo} <= {f} <= {hi}')
                    elif kind == 'float':
                        res.append(f'is_ok_float({f}) and {lo!r} <= {f} <= {hi!r}')
                    elif kind == 'bool':
                        res.append(f'is_bool({f})')
                    elif kind == 'str':
                        res.append(f'is_str({f})')
            # HasProperties.checkProperties: min<x> <= max<x>
            for pn in names:
                if pn.startswith('min') and ('max' + pn[3:]) in names:
                    res.append(f'self.{pn} <= self.max{pn[3:]}')
        info['propinv'] = res
        return res

    # ------------------------------------------------- contract application
    def signature(self, c):
        if 'signature' in c:
            fdef = ast.parse(f'def f({c["signature"]}): pass').body[0]
            return fdef, None
        fdef, cls = self.src.func(c['file'], c['func'])
        return fdef, cls

    def bind_contract_args(self, it, c, bound, args, kwargs):
        if c.get('packed_args'):
            # abstract callee taking any arguments: the call's positional / keyword arguments as two packs
            env = dict(bound)
            if '*' in kwargs:
                env['args'] = kwargs['*']
                env['kwds'] = SV(vals.mkdict([]))
            elif '**' in kwargs:
                env['args'] = SV(const(()))
                env['kwds'] = kwargs['**']
            else:
                env['args'] = SV(V.TupleV(vals.valseq([it.as_val(x) for x in args])))
                env['kwds'] = SV(vals.mkdict([(k, it.as_val(v)) for k, v in kwargs.items()]))
            return env
        fdef, cls = self.signature(c)
        selfv = bound.get('self')
        names = [a.arg for a in fdef.args.args]
        if selfv is not None and names and names[0] in ('self', 'cls'):
            env = self.calls.bind_params(it, fdef, args, kwargs, selfv)
        else:
            env = self.calls.bind_params(it, fdef, args, kwargs, None)
            if selfv is not None:
                env['self'] = selfv
        for k, v in bound.items():
            env.setdefault(k, v)
        # static types of parameters from the contract
        for p, ty in c.get('params', {}).items():
            if p in env and isinstance(env[p], SV) and env[p].ty is None:
                st = _static_ty(ty)
                if st:
                    env[p] = SV(env[p].t, st, env[p].src)
        if selfv is not None and c.get('self_type') and isinstance(selfv, SV) and selfv.ty is None:
            env['self'] = SV(selfv.t, c['self_type'])
        return env

    def apply_contract(self, it, c, bound, args, kwargs, node):
        env = self.bind_contract_args(it, c, bound, args, kwargs)
        line = getattr(node, 'lineno', 0)
        caller = it.frames[-1].fkey[-1] if it.frames else '?'
        ctx = c['module']
        for k, text in enumerate(c['requires']):
            f = self.clause(it, text, env, ctx)
            it.oblige(f'call@{line}:{c["key"]}/requires.{k}', f, kind='precondition', line=line)
            it.assume(f)
        # lemma hypotheses are evaluated in the pre-state
        lemma_hyps = []
        quant_lemmas = []
        for lname, lem in c.get('lemmas', {}).items():
            if not lem.get('callers', True):
                continue
            if lem.get('ghost_params'):
                quant_lemmas.append((lname, lem))
                continue
            hs = [self.clause(it, text, env, ctx, 'assume') for text in lem.get('requires', [])]
            lemma_hyps.append((lname, lem, z3.And(*hs) if hs else z3.BoolVal(True)))
        for g in self.ghost_names:
            self.ghost_seq(it, g)
        entry_heap = dict(it.heap)
        entry_ghost = dict(it.ghost)
        can_raise = c['raises'] != 'never'
        can_return = c.get('returns', True)
        opts = []
        if can_return:
            opts.append('ret')
        if can_raise:
            opts.append('exc')
        k = it.choose([z3.BoolVal(True)] * len(opts), f'outcome of {c["key"]}@{line}')
        frame = c['modifies'] if opts[k] == 'ret' else c.get('raises_modifies', c['modifies'])
        for f in frame:
            if f.startswith('self.'):
                it.havoc_field(f[5:], only_obj=env['self'].t)
            else:
                it.havoc_field(f)
        for g in (c.get('ghost_modifies', []) if opts[k] == 'ret' else c.get('raises_ghost_modifies', c.get('ghost_modifies', []))):
            it.ghost[g] = it.fresh('g_' + g, vals.SeqVal)
        env = dict(env)
        env['old!heap'] = (entry_heap, entry_ghost)
        if opts[k] == 'ret':
            pure = c.get('pure')
            if pure is not None:
                fargs = [it.as_val(env[p]) for p in pure.get('args', []) if p in env]
                if 'self' in env and pure.get('reads') is not None:
                    fargs += [it.read_field(env['self'].t, f) for f in pure['reads']]
                f = self.uf('pure!' + c['key'], [Val] * len(fargs) + [Val])
                res = SV(f(*fargs), _static_ty(c.get('result_type')))
            else:
                res = SV(it.fresh('res', Val), _static_ty(c.get('result_type')))
            if c.get('result_kind'):
                it.assume(self.kind_pred(it, res.t, c['result_kind']))
            if c.get('result_fresh'):
                # the callee returns a newly allocated object: distinct from every object that existed before the call
                it.assume(z3.And(V.is_ObjV(res.t), V.oid(res.t) > it.alloc_mark()))
                it.ghost['alloc!'] = V.oid(it.refine(res.t))
            if c.get('result_kind'):
                pass
            elif c.get('result_type') in self.classes and not self.classes[c['result_type']].get('abstract'):
                # a declared (non-optional) class result is an object of that class
                it.assume(self.kind_pred(it, res.t, c['result_type']))
                res = SV(it.refine(res.t), res.ty)
            if c.get('result_abstract'):
                ra = c['result_abstract']
                res = PV('abstract', {'contract': ra['contract'], 'bound': {k: env[v] for k, v in ra['bound'].items()}})
                for nme, text in c['ensures'].items():
                    it.assume(self.clause(it, text, env, ctx, 'assume'))
                return res
            env['result'] = res
            for nme, text in c['ensures'].items():
                it.assume(self.clause(it, text, env, ctx, 'assume'))
            for lname, lem, hyp in lemma_hyps:
                if lem.get('raises', 'never') == 'must':
                    it.assume(z3.Not(hyp))
                    continue
                if it.feasible(hyp):
                    for nme, text in lem.get('ensures', {}).items():
                        it.assume(z3.Implies(hyp, self.clause(it, text, env, ctx, 'assume')))
            for lname, lem in quant_lemmas:
                self.assume_quantified_lemma(it, lem, env, ctx, entry_heap, entry_ghost, returned=True)
            return res
        exc = it.fresh('exc', IntS)
        excv = SV(V.ObjV(exc), c.get('raises_type'))
        if c.get('raises_type'):
            it.assume_axiom(CLSOF(exc) == self.cids.ids[c['raises_type']])
        it.assume(self.cids.sub(CLSOF(exc), 'Exception'))
        env['exc'] = SV(V.ClsV(CLSOF(exc)))
        env['excval'] = excv
        for nme, text in c['raises'].items():
            it.assume(self.clause(it, text, env, ctx, 'assume'))
        for lname, lem in quant_lemmas:
            self.assume_quantified_lemma(it, lem, env, ctx, entry_heap, entry_ghost, returned=False)
        for lname, lem, hyp in lemma_hyps:
            if lem.get('raises', 'never') == 'never':
                it.assume(z3.Not(hyp))
            elif isinstance(lem.get('raises'), dict):
                for nme, text in lem['raises'].items():
                    it.assume(z3.Implies(hyp, self.clause(it, text, env, ctx, 'assume')))
        raise PyRaise(excv)

    def assume_quantified_lemma(self, it, lem, env, ctx, entry_heap, entry_ghost, returned):
        """a lemma with ghost parameters, used at a call site: for all values of the ghost parameters,
        hypothesis (pre-state) implies conclusion.  Hypothesis and conclusion must evaluate without forking."""
        from .engine import ProbeFork
        gnames = list(lem['ghost_params'])
        gconsts = [it.fresh('lg_' + g, Val) for g in gnames]
        env2 = dict(env)
        for g, cst in zip(gnames, gconsts):
            env2[g] = SV(cst)
        cur = (it.heap, it.ghost)
        snap_pc, snap_known = list(it.pc), list(it.known)
        it.probe += 1
        try:
            it.heap, it.ghost = dict(entry_heap), dict(entry_ghost)
            hs = [vals.truthy(self.eval_spec(it, text, env2, ctx).t) for text in lem.get('requires', [])]
            it.heap, it.ghost = cur
            cs = []
            if returned and lem.get('raises', 'never') != 'must':
                cs = [vals.truthy(self.eval_spec(it, text, env2, ctx).t) for text in lem.get('ensures', {}).values()]
        except (ProbeFork, PathEnd):
            return          # would fork: the lemma is not used at this call site (weaker, still sound)
        finally:
            it.probe -= 1
            it.heap, it.ghost = cur
            it.pc[:] = snap_pc
            it.known = snap_known
        hyp = z3.And(*hs) if hs else z3.BoolVal(True)
        bound = [z3.Const('b!' + g, Val) for g in gnames]
        subs = list(zip(gconsts, bound))
        if returned:
            body = z3.Implies(hyp, z3.And(*cs) if cs else z3.BoolVal(True))
            if lem.get('raises', 'never') == 'must':
                body = z3.Not(hyp)
        else:
            if lem.get('raises', 'never') != 'never':
                return
            body = z3.Not(hyp)
        it.assume(z3.ForAll(bound, z3.substitute(body, *subs)))

    # ------------------------------------------------------------ verification
    def fresh_param(self, it, name, ty):
        st = _static_ty(ty)
        if ty in self.classes:
            oid = z3.Int(f'in!{name}')
            t = V.ObjV(oid)
            it.assume(self.cids.sub(CLSOF(oid), ty))
            if not self.classes[ty].get('abstract'):
                it.assume(CLSOF(oid) == self.cids.id(ty))
            it.assume(oid <= it.alloc_mark())
            return SV(t, ty)
        t = z3.Const(f'in!{name}', Val)
        if ty and ty != 'any':
            it.assume(self.kind_pred(it, t, ty))
        return SV(t, st)

    def verify_case(self, c, case_name, extra_requires, ensures, raises, max_paths=3000, ghost_params=None):
        """explore the real function under the contract's preconditions and
        return (obligations, paths, notes)"""
        fdef, cls = self.src.func(c['file'], c['func'])
        self.current = c
        it = Interp(self)
        all_obligations = []
        notes = []
        ctx = c['module']
        label = c['key'] + ('' if case_name == 'contract' else f'[{case_name}]')

        def run(it):
            params = {}
            a = fdef.args
            names = [x.arg for x in a.args + a.kwonlyargs]
            closure = {}
            for cn, cty in c.get('closure', {}).items():
                closure[cn] = self.fresh_param(it, cn, cty)
            for n in names:
                if n == 'self' and c.get('self_type'):
                    params[n] = self.fresh_param(it, 'self', c['self_type'])
                else:
                    params[n] = self.fresh_param(it, n, c.get('params', {}).get(n, 'any'))
            if a.vararg is not None:
                params[a.vararg.arg] = self.fresh_param(it, a.vararg.arg, c.get('params', {}).get(a.vararg.arg, 'tuple'))
            if a.kwarg is not None:
                params[a.kwarg.arg] = self.fresh_param(it, a.kwarg.arg, c.get('params', {}).get(a.kwarg.arg, 'dict'))
            it.inputs = {n: v.t for n, v in params.items() if isinstance(v, SV)}
            for cn, cv in closure.items():
                it.inputs['closure.' + cn] = cv.t
            if 'self' in params and c.get('self_type') in self.classes:
                for fname, fty in self.all_fields(c['self_type']).items():
                    if not fty.startswith('const:'):
                        it.inputs[f'self.{fname}'] = it.read_field(params['self'].t, fname)
            for pn, pv in params.items():
                if pn != 'self' and isinstance(pv, SV) and pv.ty in self.classes and not self.classes[pv.ty].get('abstract'):
                    for fname, fty in self.all_fields(pv.ty).items():
                        if not fty.startswith('const:'):
                            it.inputs[f'{pn}.{fname}'] = it.read_field(pv.t, fname)
            env = dict(params)
            env.update(closure)
            it.ghost_param_env = {}
            for gn, gty in (ghost_params or {}).items():
                env[gn] = self.fresh_param(it, gn, gty)
                it.inputs['ghost.' + gn] = env[gn].t
                it.ghost_param_env[gn] = env[gn]       # visible to loop invariants as well
            it.no_float_overflow = bool(c.get('assume_no_float_overflow'))
            it.ghost['alloc!entry'] = it.alloc_mark()
            for g in self.ghost_names:
                self.ghost_seq(it, g)
            for text in list(c['requires']) + list(c.get('assumes', [])) + list(c.get('vc_requires', [])) + list(extra_requires):
                it.assume(self.clause(it, text, env, ctx, 'assume'))
            # known-finding input classes: the clause is proved for every input outside them
            excl = {}
            for clause, texts in (getattr(self, 'exclusions', None) or {}).items():
                excl[clause] = z3.Or(*[self.clause(it, t, env, ctx, 'assume') for t in texts])

            def guard(clause, goal):
                es = [excl[k] for k in (clause, '*') if k in excl]
                return z3.Or(*es, goal) if es else goal
            entry_heap = dict(it.heap)
            entry_ghost = dict(it.ghost)
            env['old!heap'] = (entry_heap, entry_ghost)
            it.entry_old = (entry_heap, entry_ghost)
            it.entry_pc_len = len(it.pc)
            try:
                res = it.call_function(fdef, (c['file'], c['func']), cls, params, closure)
                outcome = 'ret'
            except PyRaise as r:
                res = r.exc
                outcome = 'exc'
            env2 = dict(env)
            if outcome == 'ret':
                if raises == 'must':
                    it.oblige(f'{label}/must-raise', guard('must-raise', z3.BoolVal(False)), kind='post')
                env2['result'] = res
                if c.get('result_type') and isinstance(res, SV) and res.ty is None:
                    env2['result'] = SV(res.t, _static_ty(c['result_type']))
                for nme, text in ensures.items():
                    it.oblige(f'{label}/ensures.{nme}', guard(f'ensures.{nme}', self.clause(it, text, env2, ctx)), kind='post')
            else:
                if raises == 'never':
                    it.oblige(f'{label}/never-raises', guard('never-raises', z3.BoolVal(False)), kind='post')
                else:
                    env2['exc'] = SV(V.ClsV(it.exc_cls(res)))
                    env2['excval'] = res
                    for nme, text in raises.items():
                        it.oblige(f'{label}/raises.{nme}', guard(f'raises.{nme}', self.clause(it, text, env2, ctx)), kind='post')
            # reachability (vacuity guard): each `reach` condition must be satisfiable at the end of some path
            if case_name == 'contract':
                for nme, text in (c.get('reach') or {}).items():
                    on = 'exc' if nme.startswith('raises_') else 'ret'
                    if on != outcome:
                        continue
                    f = it.refine(self.clause(it, text, env2, ctx, 'assume'))
                    it.obligations.append(Obligation(f'{label}/reach.{nme}', it.axioms + it.pc, f, 'reach', it.pathname(), 0))
            # frame: fields not in `modifies` are unchanged
            if c.get('check_frame', True):
                allowed = {f[5:] if f.startswith('self.') else f for f in c['modifies']}
                for f, arr in it.heap.items():
                    if f in entry_heap and entry_heap[f] is not arr and f not in allowed and not f.startswith('dyn!'):
                        it.oblige(f'{label}/frame.{f}', arr == entry_heap[f], kind='frame')
            return (outcome, list(it.obligations), it.pathname())

        results = explore(it, run, max_paths)
        paths = []
        for outcome, obls, pname in results:
            paths.append((pname, outcome))
            all_obligations.extend(obls)
        return all_obligations, paths, it.stats

    def verify(self, c, max_paths=3000):
        """-> dict with obligations and bookkeeping for one contract"""
        t0 = time.time()
        out = {'key': c['key'], 'file': c['file'], 'func': c['func'], 'cases': {}, 'obligations': [],
               'unsupported': None, 'paths': 0}
        cases = [('contract', [], c['ensures'], c['raises'])]
        for lname, lem in c.get('lemmas', {}).items():
            cases.append((lname, lem.get('requires', []), lem.get('ensures', {}), lem.get('raises', 'never')))
        for cname, req, ens, rai in cases:
            try:
                gp = c.get('lemmas', {}).get(cname, {}).get('ghost_params') if cname != 'contract' else None
                obls, paths, stats = self.verify_case(c, cname, req, ens, rai, max_paths, gp)
            except Unsupported as e:
                out['unsupported'] = f'{cname}: {e}'
                out['cases'][cname] = {'paths': 0, 'unsupported': str(e)}
                continue
            out['cases'][cname] = {'paths': len(paths), 'outcomes': sorted({o for _, o in paths})}
            out['paths'] += len(paths)
            out['obligations'].extend(obls)
        out['explore_s'] = time.time() - t0
        return out


BUILTIN_TYPE_NAMES = {'int', 'float', 'bool', 'str', 'bytes', 'tuple', 'list', 'dict', 'set', 'object', 'type',
                      'frozenset', 'Mapping', 'NoneType', 'EnumMember'}
MODULE_FUNCS = {'os.path.dirname': 'contract:os.path.dirname', 'os.scandir': 'contract:os.scandir', 'os.remove': 'contract:os.remove',
                'time.time': 'time_time', 'time.sleep': 'time_sleep', 'json.dumps': 'json_dumps',
                'json.loads': 'json_loads'}
MODULE_CLASSES = {}
SINGLETONS = {'Done': -101, 'UNSET': -102, 'Retry': -103, 'Finish': -104}
SPECIAL_GLOBALS = {('frappy/lib/__init__.py', 'generalConfig'): 'frappy.lib.generalConfig'}


def _plain(v):
    if isinstance(v, dict):
        return all(isinstance(k, (str, int)) and _plain(x) for k, x in v.items())
    if isinstance(v, (list, tuple)):
        return all(_plain(x) for x in v)
    return v is None or isinstance(v, (bool, int, float, str))


def _static_ty(ty):
    if isinstance(ty, str):
        ty = ty.replace('|none', '')
    if ty in (None, 'any', 'float', 'number', 'set', 'none'):
        return None
    return ty


def _dt_spec(node, consts):
    """Property datatype expression -> (kind, lo, hi) for the simple leaf kinds"""
    if not isinstance(node, ast.Call) or not isinstance(node.func, ast.Name):
        return None
    name = node.func.id
    args = list(node.args)
    if name == 'Stub':
        if not args or not isinstance(args[0], ast.Constant):
            return None
        name = args[0].value
        args = args[1:]
    try:
        vals_ = [extract._consteval(a, consts) for a in args]
    except extract._NotConst:
        return None
    if name == 'IntRange':
        lo = vals_[0] if len(vals_) > 0 else consts.get('DEFAULT_MIN_INT', -16777216)
        hi = vals_[1] if len(vals_) > 1 else consts.get('DEFAULT_MAX_INT', 16777216)
        return ('int', lo, hi)
    if name == 'FloatRange':
        lo = float(vals_[0]) if len(vals_) > 0 else -sys.float_info.max
        hi = float(vals_[1]) if len(vals_) > 1 else sys.float_info.max
        return ('float', lo, hi)
    if name == 'BoolType':
        return ('bool', None, None)
    if name in ('StringType', 'TextType'):
        return ('str', None, None)
    return None


# ======================================================================= solving

def solve_obligation(o, timeout_ms=10000, want_model=True):
    if o.status == 'discharged':
        return o
    t0 = time.time()
    if _mentions_bytes(o) and _deaccess_retry(o, 3000):
        o.time = time.time() - t0
        o.solver = 'z3-' + z3.get_version_string()
        return o
    s = z3.Solver()
    s.set('timeout', timeout_ms)
    s.add(*o.pc)
    goal = skolemize_goal(o.goal)
    s.add(*instantiation_hints(o.pc, goal))
    s.add(z3.Not(goal))
    r = s.check()
    o.time = time.time() - t0
    o.solver = 'z3-' + z3.get_version_string()
    if r == z3.unsat:
        o.status = 'discharged'
    elif r == z3.sat:
        o.status = 'refuted'
        if want_model:
            m = s.model()
            o.model = {}
            for name, term in o.inputs.items():
                try:
                    o.model[name] = val_to_py(m.eval(term, model_completion=True))
                except Exception as e:    # model value outside the printable universe
                    o.model[name] = f'<unprintable: {e}>'
            o.note = 'counter-model from z3'
    else:
        o.status = 'unknown'
        o.note = s.reason_unknown()
        o.smt2 = s.to_smt2()
        if _deaccess_retry(o, timeout_ms):
            o.time = time.time() - t0
        elif _refute_without_definitional_axioms(o, min(timeout_ms, 10000), want_model):
            o.time = time.time() - t0
    return o


def _refute_without_definitional_axioms(o, timeout_ms, want_model):
    """z3 rarely finds a model when quantified facts are present.  The engine's own quantified *axioms* (definitions of helper
    sequences: range(n), characters of a string, keys of a set ...) only constrain fresh helper constants; a model of the query
    without them is taken as a refutation (reported with its note; the driver still replays it natively where it can and
    otherwise reports it only for clauses of the committed baseline).  Quantified facts of the path condition itself
    (invariants, preconditions, summaries) are kept."""
    n = getattr(o, 'n_axioms', 0)
    if not n:
        return False
    kept = [f for j, f in enumerate(o.pc) if not (j < n and _has_quant(f))]
    if len(kept) == len(o.pc):
        return False
    s = z3.Solver()
    s.set('timeout', timeout_ms)
    s.add(*kept)
    s.add(z3.Not(o.goal))
    if s.check() != z3.sat:
        return False
    o.status = 'refuted'
    o.note = 'counter-model of the query without the engine-generated quantified definitions of helper sequences'
    if want_model:
        m = s.model()
        o.model = {}
        for name, term in o.inputs.items():
            try:
                o.model[name] = val_to_py(m.eval(term, model_completion=True))
            except Exception as e:
                o.model[name] = f'<unprintable: {e}>'
    return True


def candidate_model(o, timeout_ms=10000):
    """for an `unknown` obligation: a model of the query with the quantified facts of the path condition
    dropped.  Only a *candidate* counterexample - it counts for nothing unless the native replay on the real
    code confirms it (driver)."""
    def strip(f):
        if z3.is_quantifier(f):
            return None
        if z3.is_and(f):
            parts = [strip(c) for c in f.children()]
            parts = [p for p in parts if p is not None]
            return z3.And(*parts) if parts else None
        return f if not _has_quant(f) else None
    s = z3.Solver()
    s.set('timeout', timeout_ms)
    for f in o.pc:
        g = strip(f)
        if g is not None:
            s.add(g)
    s.add(z3.Not(o.goal))
    if s.check() != z3.sat:
        return None
    m = s.model()
    model = {}
    for name, term in o.inputs.items():
        try:
            model[name] = val_to_py(m.eval(term, model_completion=True))
        except Exception as e:
            model[name] = f'<unprintable: {e}>'
    return model


def _has_quant(f, seen=None):
    seen = set() if seen is None else seen
    stack = [f]
    while stack:
        t = stack.pop()
        if t.get_id() in seen:
            continue
        seen.add(t.get_id())
        if z3.is_quantifier(t):
            return True
        if z3.is_app(t):
            stack.extend(t.children())
    return False


_SEQ_ACCESSORS = ('by', 's', 'titems', 'litems')


def _deaccess_retry(o, timeout_ms):
    """z3's sequence solver gives up on queries whose sequence terms are datatype accessor applications
    (by(x), s(x), ...) that it decides at once over plain constants.  Retry with every such application
    replaced by a fresh constant c plus `is_K(x) => x == K(c)` and pairwise congruence; the rewritten
    query is implied-unsat-equivalent in the direction used (unsat here => unsat of the original), so
    only `discharged` is taken from it."""
    forms = list(o.pc) + [z3.Not(o.goal)]
    extra = []
    groups = {}
    for _round in range(200):
        target = _innermost_accessor(forms + extra)
        if target is None:
            break
        acc = target.decl().name()
        arg = target.arg(0)
        c = z3.FreshConst(target.sort(), 'acc')
        K = getattr(V, {'by': 'BytesV', 's': 'StrV', 'titems': 'TupleV', 'litems': 'ListV'}[acc])
        isK = getattr(V, 'is_' + K.name())
        forms = [z3.substitute(f, (target, c)) for f in forms]
        extra = [z3.substitute(f, (target, c)) for f in extra]
        extra.append(z3.Implies(isK(arg), arg == K(c)))
        for (arg2, c2) in groups.setdefault(acc, []):
            extra.append(z3.Implies(arg == arg2, c == c2))
        groups[acc].append((arg, c))
    else:
        return False
    if not groups:
        return False
    s = z3.Solver()
    s.set('timeout', timeout_ms)
    s.add(*forms)
    s.add(*extra)
    if s.check() == z3.unsat:
        o.status = 'discharged'
        o.note = 'after replacing sequence accessor terms by constants'
        return True
    return False


def _mentions_bytes(o):
    seen = set()
    stack = [o.goal] + list(o.pc)
    while stack:
        t = stack.pop()
        if t.get_id() in seen:
            continue
        seen.add(t.get_id())
        if z3.is_quantifier(t):
            stack.append(t.body())
        elif z3.is_app(t):
            if t.decl().kind() == z3.Z3_OP_DT_ACCESSOR and t.decl().name() == 'by':
                return True
            stack.extend(t.children())
    return False


def _innermost_accessor(forms):
    seen = set()
    best = [None]

    def walk(t):
        """-> True if t contains a sequence accessor application"""
        if z3.is_quantifier(t):
            return walk(t.body())
        if not z3.is_app(t) or best[0] is not None:
            return False
        if t.get_id() in seen:
            return False
        seen.add(t.get_id())
        inner = False
        for ch in t.children():
            if walk(ch):
                inner = True
            if best[0] is not None:
                return True
        if t.decl().kind() == z3.Z3_OP_DT_ACCESSOR and t.decl().name() in _SEQ_ACCESSORS and not inner \
                and not has_free_vars(t):
            if t.arg(0).decl().kind() != z3.Z3_OP_DT_CONSTRUCTOR:
                best[0] = t
            return True
        return inner
    for f in forms:
        walk(f)
        if best[0] is not None:
            return best[0]
    return None


_SK = [0]


def skolemize_goal(g, depth=0):
    """universal quantifiers in positive position of the goal are replaced by fresh constants (validity preserving);
    the constants then serve as instantiation terms for the quantified facts of the path condition"""
    if depth > 6:
        return g
    if z3.is_quantifier(g) and g.is_forall():
        consts = []
        for j in range(g.num_vars()):
            _SK[0] += 1
            consts.append(z3.Const(f'sk!{_SK[0]}!{g.var_name(j)}', g.var_sort(j)))
        body = z3.substitute_vars(g.body(), *reversed(consts))
        return skolemize_goal(body, depth + 1)
    if z3.is_and(g):
        return z3.And(*[skolemize_goal(c, depth + 1) for c in g.children()])
    if z3.is_or(g):
        return z3.Or(*[skolemize_goal(c, depth + 1) for c in g.children()])
    if z3.is_implies(g):
        return z3.Implies(g.arg(0), skolemize_goal(g.arg(1), depth + 1))
    return g


def has_free_vars(e, depth=0, seen=None):
    seen = {} if seen is None else seen
    key = (e.get_id(), depth)
    if key in seen:
        return seen[key]
    if z3.is_var(e):
        r = z3.get_var_index(e) >= depth
    elif z3.is_quantifier(e):
        r = has_free_vars(e.body(), depth + e.num_vars(), seen)
    else:
        r = any(has_free_vars(c, depth, seen) for c in e.children())
    seen[key] = r
    return r


def instantiation_hints(pc, goal, limit=40):
    """instances of single-variable universal facts of the path condition at the Int / String
    terms of the goal (sound: instances of assumed facts; helps trigger-less quantifiers)"""
    cands = {}
    stack = [goal]
    seen = set()
    while stack and len(seen) < 4000:
        t = stack.pop()
        if t.get_id() in seen:
            continue
        seen.add(t.get_id())
        if z3.is_app(t):
            if t.sort() in (IntS, StrS) and t.num_args() >= 1 and t.decl().kind() in (z3.Z3_OP_DT_ACCESSOR, z3.Z3_OP_UNINTERPRETED):
                cands.setdefault(t.sort().name(), {})[t.get_id()] = t
            elif t.sort() in (IntS, StrS) and z3.is_const(t) and t.decl().kind() == z3.Z3_OP_UNINTERPRETED:
                cands.setdefault(t.sort().name(), {})[t.get_id()] = t
            stack.extend(t.children())
        elif z3.is_quantifier(t):
            stack.append(t.body())
    out = []
    for p in pc:
        qs = [p] if z3.is_quantifier(p) else ([c for c in p.children() if z3.is_quantifier(c)] if z3.is_and(p) else [])
        for q in qs:
            if q.is_forall() and q.num_vars() == 1 and q.var_sort(0).name() in cands:
                for t in list(cands[q.var_sort(0).name()].values())[:6]:
                    inst = z3.substitute_vars(q.body(), t)
                    if has_free_vars(inst):
                        continue
                    out.append(inst)
                    if len(out) >= limit:
                        return out
    return out


def cvc5_retry(o, timeout_s=20):
    """second opinion on an `unknown`: /usr/bin/cvc5 on the SMT-LIB dump"""
    text = getattr(o, 'smt2', None)
    if not text:
        return o
    with tempfile.NamedTemporaryFile('w', suffix='.smt2', delete=False) as f:
        f.write('(set-logic ALL)\n' + text)
        path = f.name
    t0 = time.time()
    try:
        p = subprocess.run(['/usr/bin/cvc5', '--strings-exp', f'--tlimit={timeout_s * 1000}', path],
                           capture_output=True, text=True, timeout=timeout_s + 5)
        ans = p.stdout.strip().splitlines()[0] if p.stdout.strip() else ''
    except subprocess.TimeoutExpired:
        ans = 'timeout'
    finally:
        os.unlink(path)
    o.time += time.time() - t0
    if ans == 'unsat':
        o.status = 'discharged'
        o.solver = 'cvc5-1.0.3'
    elif ans == 'sat':
        o.status = 'refuted'
        o.solver = 'cvc5-1.0.3'
        o.note = 'sat from cvc5 (no model extracted)'
    return o


class Unprintable(Exception):
    pass


def seq_elems(t):
    """z3 sequence value -> list of element terms"""
    t = simp(t)
    if z3.is_app(t):
        k = t.decl().kind()
        if k == z3.Z3_OP_SEQ_EMPTY:
            return []
        if k == z3.Z3_OP_SEQ_UNIT:
            return [t.arg(0)]
        if k == z3.Z3_OP_SEQ_CONCAT:
            out = []
            for c in t.children():
                out.extend(seq_elems(c))
            return out
    if z3.is_string_value(t):
        return list(t.as_string())
    raise Unprintable(f'sequence {t}')


def val_to_py(t):
    """model value of sort Val -> a python literal description (JSON-able)"""
    t = simp(t)
    if t.sort() != Val:
        if z3.is_int_value(t):
            return t.as_long()
        if z3.is_rational_value(t):
            return {'$frac': [t.numerator_as_long(), t.denominator_as_long()]}
        if z3.is_string_value(t):
            return t.as_string()
        if z3.is_true(t) or z3.is_false(t):
            return z3.is_true(t)
        return str(t)
    name = t.decl().name()
    if name == 'NoneV':
        return None
    if name == 'BoolV':
        return z3.is_true(simp(t.arg(0)))
    if name == 'IntV':
        return simp(t.arg(0)).as_long()
    if name == 'FloatV':
        r = simp(t.arg(0))
        if z3.is_rational_value(r):
            return {'$float': [r.numerator_as_long(), r.denominator_as_long()]}
        if z3.is_algebraic_value(r):
            a = r.approx(20)
            return {'$float': [a.numerator_as_long(), a.denominator_as_long()]}
        raise Unprintable(str(r))
    if name == 'PInf':
        return {'$float': 'inf'}
    if name == 'NInf':
        return {'$float': '-inf'}
    if name == 'NaN':
        return {'$float': 'nan'}
    if name == 'StrV':
        s = simp(t.arg(0))
        if z3.is_string_value(s):
            return {'$str': s.as_string()}
        raise Unprintable(str(s))
    if name == 'BytesV':
        return {'$bytes': [simp(e).as_long() for e in seq_elems(t.arg(0))]}
    if name == 'TupleV':
        return {'$tuple': [val_to_py(e) for e in seq_elems(t.arg(0))]}
    if name == 'ListV':
        return [val_to_py(e) for e in seq_elems(t.arg(0))]
    if name == 'DictV':
        keys = [val_to_py(e) for e in seq_elems(t.arg(0))]
        mp = t.arg(2)
        out = []
        for k in keys:
            ks = k['$str'] if isinstance(k, dict) and '$str' in k else None
            if ks is None:
                out.append([k, None])
            else:
                out.append([ks, val_to_py(simp(z3.Select(mp, z3.StringVal(ks))))])
        return {'$dict': out}
    if name == 'SetV':
        return {'$set': str(t.arg(0))}
    if name == 'EnumV':
        return {'$enum': [val_to_py(t.arg(1)), simp(t.arg(2)).as_long()]}
    if name == 'ObjV':
        return {'$obj': simp(t.arg(0)).as_long() if z3.is_int_value(simp(t.arg(0))) else str(t.arg(0))}
    if name == 'ClsV':
        return {'$cls': simp(t.arg(0)).as_long() if z3.is_int_value(simp(t.arg(0))) else str(t.arg(0))}
    raise Unprintable(str(t))
