"""./check <property> [--tier quick|thorough] [--replay FILE] [--update-baseline]

Exit 0: every obligation of the property discharged on /repo's working tree
        (known findings printed as KNOWN-FINDING lines);
exit 1: a violation (VIOLATION property=<id> replay=<path> ...);
exit 2: undecided (unknown / unsupported construct and no concrete failing input);
exit 3: the checker itself failed.
"""
import argparse
import hashlib
import importlib.util
import json
import multiprocessing as mp
import os
import subprocess
import sys
import time
import traceback

VERIF = os.path.dirname(os.path.dirname(os.path.abspath(__file__)))
REPO = os.environ.get('VERIF_REPO', '/repo')
NATIVE_PY = os.environ.get('VERIF_NATIVE_PY', '/venv/bin/python')
sys.path.insert(0, VERIF)


def load_props():
    spec = importlib.util.spec_from_file_location('props', os.path.join(VERIF, 'props.py'))
    mod = importlib.util.module_from_spec(spec)
    spec.loader.exec_module(mod)
    return mod


ENCODING_ASSUMPTIONS = [
    'A1 float arithmetic is real arithmetic (no rounding) except that overflow to +-inf, NaN propagation, unordered NaN comparison and '
    'int -> float rounding of additive conversions are modelled',
    'A2 generalConfig.lazy_number_validation is False (its default)',
    'A3 logging (self.log.*, log.*, print) never raises and has no effect; its arguments are not evaluated',
    'A4 dictionaries have string keys unless declared dict[obj] / dict[int] / dict[pair] / set[obj] in the class schema of the contract file',
    'A5 codec axioms: canonical base64 text, enum name/code bijection (validated by the bounded tier)',
    'A6 no BaseException other than Exception subclasses (no KeyboardInterrupt / MemoryError / SystemExit)',
    'A7 termination is not proved anywhere; a hang violates no clause',
    'hashability is approximated by "not a list / dict / set"; containers have value semantics with alias tracking for values taken out of '
    'a dict slot (get / setdefault / items())',
    'contracts marked trusted (coverage.trusted_contracts) are assumed: abstract callables, interface contracts of abstract members, external functions',
]
JOB_TIMEOUT_S = {'quick': 420, 'thorough': 3000}
_WORLDS = {}


def get_world(files):
    from pyvc import vc
    key = tuple(files)
    if key not in _WORLDS:
        _WORLDS[key] = vc.World([os.path.join(VERIF, f) for f in files], REPO)
    return _WORLDS[key]


def run_native(script, payload, timeout=120):
    env = dict(os.environ)
    env['PYTHONPATH'] = f'{REPO}:{VERIF}'
    env['VERIF_REPO'] = REPO
    try:
        p = subprocess.run([NATIVE_PY, os.path.join(VERIF, script)], input=json.dumps(payload), capture_output=True,
                           text=True, timeout=timeout, env=env, cwd=VERIF)
    except subprocess.TimeoutExpired:
        return {'error': 'timeout'}
    if p.returncode != 0 or not p.stdout.strip():
        return {'error': f'exit {p.returncode}: {p.stderr[-800:]}'}
    try:
        return json.loads(p.stdout)
    except ValueError:
        return {'error': 'bad output: ' + p.stdout[-300:]}


def job(args):
    """one (contract, case): explore the real function, discharge, replay refutations"""
    files, key, case, tier, exclusions = args
    from pyvc import vc
    from pyvc.engine import Unsupported
    import z3
    t0 = time.time()
    res = {'key': key, 'case': case, 'obligations': [], 'unsupported': None, 'paths': 0, 'error': None}
    import signal

    class JobTimeout(Exception):
        pass

    def on_alarm(signum, frame):
        raise JobTimeout()
    signal.signal(signal.SIGALRM, on_alarm)
    signal.alarm(JOB_TIMEOUT_S[tier])
    try:
        w = get_world(files)
        c = w.contracts[key]
        res['file'], res['func'] = c['file'], c['func']
        res['info'] = w.src.func_info(c['file'], c['func'])
        if case == 'contract':
            spec = ('contract', [], c['ensures'], c['raises'], 3000, c.get('ghost_params'))
        else:
            lem = c['lemmas'][case]
            spec = (case, lem.get('requires', []), lem.get('ensures', {}), lem.get('raises', 'never'), 3000, dict(c.get('ghost_params') or {}, **(lem.get('ghost_params') or {})))
        w.exclusions = exclusions or {}
        try:
            obls, paths, stats = w.verify_case(c, *spec)
        except Unsupported as e:
            res['unsupported'] = str(e)
            res['wall'] = time.time() - t0
            return res
        res['paths'] = len(paths)
        res['outcomes'] = sorted({o for _, o in paths})
        if spec[2] and 'ret' not in res['outcomes'] and spec[3] != 'must':
            # postconditions are stated but no explored path returns: the clauses would hold vacuously
            res['obligations'].append({'name': f'{key}/reach.returns', 'path': '*', 'kind': 'reach', 'status': 'unknown', 'solver': None,
                                       'time': 0, 'note': 'no explored path returns although postconditions are stated (vacuity guard)',
                                       'line': 0, 'formula': None})
        res['inlined'] = sorted(w.inlined_log)
        timeout = 10000 if tier == 'quick' else 60000
        seen = {}
        # reachability clauses: satisfiable on at least one path, else the proof may be vacuous
        reach = {}
        for o in obls:
            if o.kind == 'reach':
                reach.setdefault(o.name, []).append(o)
        obls = [o for o in obls if o.kind != 'reach']
        for rname, cands in reach.items():
            t1 = time.time()
            status = 'unreached'
            for o in cands:
                # the quantified facts of a path condition are summaries / well-formedness axioms; satisfiability of the
                # rest is what the guard looks at (a guard against vacuity, not a proof obligation)
                s_ = z3.Solver()
                s_.set('timeout', 3000)
                for f_ in o.pc:
                    if not vc._has_quant(f_):
                        s_.add(f_)
                s_.add(o.goal)
                r_ = s_.check()
                if r_ == z3.sat:
                    status = 'discharged'
                    break
                if r_ == z3.unknown and status == 'unreached':
                    status = 'reach-unknown'
            if status == 'reach-unknown':
                # not shown unreachable (that needs `unsat` on every path); the solver could not produce a model either
                # (strings / arrays): accepted with a note - the guard fails only on a proven vacuity
                status = 'discharged'
                note_ = f'reachability not refuted, no model found either (solver unknown) on {len(cands)} paths'
            else:
                note_ = ''
            res['obligations'].append({'name': rname, 'path': '*', 'kind': 'reach', 'status': 'discharged' if status == 'discharged' else 'unknown',
                                       'solver': 'z3-' + z3.get_version_string(), 'time': round(time.time() - t1, 4),
                                       'note': note_ if status == 'discharged' else f'reachability condition {status} on {len(cands)} paths (vacuity guard)',
                                       'line': 0, 'formula': None})
        for rname in (c.get('reach') or {}) if case == 'contract' else ():
            if not any(k.endswith('/reach.' + rname) for k in reach):
                res['obligations'].append({'name': f'{key}/reach.{rname}', 'path': '*', 'kind': 'reach', 'status': 'unknown', 'solver': None, 'time': 0,
                                           'note': 'no path ends in the outcome this reachability condition is stated for (vacuity guard)',
                                           'line': 0, 'formula': None})
        for o in obls:
            ident = (o.name, hashlib.sha1((str([p.get_id() for p in o.pc]) + str(o.goal.get_id())).encode()).hexdigest())
            if ident in seen:
                continue
            seen[ident] = o
            n_unknown = sum(1 for d_ in res['obligations'] if d_['status'] == 'unknown')
            # after several undecided obligations of one function the remaining ones get a short budget
            # (a changed function typically makes many clauses hard at once; the verdict needs only one)
            budget = timeout if n_unknown < 4 else min(timeout, 3000)
            vc.solve_obligation(o, budget)
            if o.status == 'unknown' and n_unknown < 4:
                vc.cvc5_retry(o, 20 if tier == 'quick' else 120)
            cand = None
            if o.status == 'unknown' and o.kind == 'post' and n_unknown < 6:
                # candidate counterexample from the quantifier-free relaxation: believed only if the real code confirms it
                model = vc.candidate_model(o, timeout)
                if model is not None:
                    cand = run_native('pyvc/replay_native.py', {
                        'contract_file': c['module'], 'key': key, 'case': case, 'model': model})
                    if cand.get('built') and cand.get('pre_ok') and cand.get('violated'):
                        o.status, o.model = 'refuted', model
                        o.note = 'solver unknown on the full query; counterexample of the quantifier-free relaxation confirmed on the real code'
                    else:
                        cand = None
            d = {'name': o.name, 'path': o.path, 'kind': o.kind, 'status': o.status, 'solver': o.solver,
                 'time': round(o.time, 4), 'note': o.note, 'line': o.line}
            if cand is not None:
                d['model'] = o.model
                d['replay'] = cand
            elif o.status == 'refuted':
                d['model'] = o.model
                if o.kind == 'post' and o.model is not None:
                    d['replay'] = run_native('pyvc/replay_native.py', {
                        'contract_file': c['module'], 'key': key, 'case': case, 'model': o.model})
            if tier == 'thorough' and o.status == 'discharged' and o.solver and o.solver.startswith('z3'):
                pass
            d['formula'] = None
            res['obligations'].append(d)
        if res['obligations']:
            # one rendered formula as a sample
            o = next(iter(seen.values()))
            res['sample_formula'] = (str(z3.And(*o.pc))[:600] + ' ==> ' + str(o.goal)[:400]) if o.pc else str(o.goal)[:600]
    except JobTimeout:
        # keep what was decided so far; the rest of this function stays undecided
        res['obligations'].append({'name': f'{key}/watchdog', 'path': '*', 'kind': 'post', 'status': 'unknown', 'solver': None, 'time': 0,
                                   'note': f'exploration/solving exceeded {JOB_TIMEOUT_S[tier]} s; remaining obligations not attempted',
                                   'line': 0, 'formula': None})
    except Exception as e:     # checker failure, never a verdict
        res['error'] = f'{type(e).__name__}: {e}\n{traceback.format_exc()[-2000:]}'
    finally:
        signal.alarm(0)
    res['wall'] = time.time() - t0
    return res


def clause_id(name):
    """obligation name without call-site line numbers -> stable clause identifier"""
    import re
    return re.sub(r'call@\d+:', 'call:', name)


def main(argv=None):
    ap = argparse.ArgumentParser()
    ap.add_argument('prop')
    ap.add_argument('--tier', default=os.environ.get('VERIF_TIER', 'quick'))
    ap.add_argument('--replay')
    ap.add_argument('--update-baseline', action='store_true')
    ap.add_argument('--only')
    ap.add_argument('--jobs', type=int, default=min(16, os.cpu_count() or 4))
    a = ap.parse_args(argv)
    t0 = time.time()
    seed = int(os.environ.get('VERIF_SEED', '0') or 0)
    props = load_props()
    if a.replay:
        return do_replay(a.prop, a.replay)
    if a.prop not in props.PROPS:
        print(f'unknown or unclaimed property {a.prop}')
        return 3
    P = props.PROPS[a.prop]
    try:
        return run_property(a, P, props, seed, t0)
    except Exception:
        traceback.print_exc()
        return 3


def load_known(prop):
    path = os.path.join(VERIF, 'known_findings.json')
    if not os.path.exists(path):
        return []
    with open(path) as f:
        data = json.load(f)
    return [e for e in data.get('findings', []) if e.get('property') == prop]


def run_property(a, P, props, seed, t0):
    from pyvc import extract
    prop = a.prop
    files = P['contract_files']
    world = get_world(files)
    known = load_known(prop)
    open_findings = [k for k in known if k.get('status') == 'open']
    exclusions = {}
    for k in open_findings:
        if k.get('contract') and k.get('except_when'):
            exclusions.setdefault(k['contract'], {}).setdefault(k.get('clause', '*'), []).append(k['except_when'])
    jobs = []
    contracts = [c for c in world.contracts.values() if prop in c.get('serves', [])]
    if a.only:
        contracts = [c for c in contracts if a.only in c['key']]
    bounded_only = []
    for c in contracts:
        if c.get('trusted'):
            continue
        if c.get('vc') is False:
            bounded_only.append(f"{c['file']}::{c['func']} (contract {c['key']})")
            continue
        jobs.append((files, c['key'], 'contract', a.tier, exclusions.get(c['key'])))
        for lname, lem in c.get('lemmas', {}).items():
            if lem.get('vc') is False:
                bounded_only.append(f"{c['file']}::{c['func']} lemma {lname} (contract {c['key']})")
                continue
            jobs.append((files, c['key'], lname, a.tier, exclusions.get(c['key'])))
    results = []
    if jobs:
        with mp.Pool(min(a.jobs, len(jobs))) as pool:
            for r in pool.imap_unordered(job, jobs, chunksize=1):
                results.append(r)
    results.sort(key=lambda r: (r['key'], r['case']))
    # bounded tier (stand-ins, labelled bounded, never counted as proved)
    bounded = []
    for b in P.get('bounded', []):
        if a.tier == 'quick' and b.get('thorough_only'):
            continue
        bounded.append(run_bounded(b, a.tier, seed))
    P = dict(P)
    P['bounded_only'] = bounded_only
    return report(a, P, props, results, bounded, known, seed, t0, world)


def run_bounded(b, tier, seed):
    t0 = time.time()
    out = run_native(b['script'], {'tier': tier, 'seed': seed, 'args': b.get('args', {})}, timeout=b.get('timeout', 600) * (1 if tier == 'quick' else 6))
    out['name'] = b['name']
    out['script'], out['args'] = b['script'], b.get('args', {})
    out['wall'] = round(time.time() - t0, 2)
    return out


def report(a, P, props, results, bounded, known, seed, t0, world):
    prop = a.prop
    os.makedirs(os.path.join(VERIF, 'evidence'), exist_ok=True)
    os.makedirs(os.path.join(VERIF, 'replays'), exist_ok=True)
    if not a.only:
        import glob
        for old in glob.glob(os.path.join(VERIF, 'replays', f'{prop}-*.json')):
            os.unlink(old)
    base_path = os.path.join(VERIF, 'baseline_obligations.json')
    baseline = {}
    if os.path.exists(base_path):
        with open(base_path) as f:
            baseline = json.load(f)
    base_clauses = set(baseline.get(prop, {}).get('clauses', []))
    min_obl = baseline.get(prop, {}).get('min_obligations', 1)
    if P.get('level') == 'bounded':
        # a property decided by the bounded stand-in only: the vacuity guard is the number of native evaluations
        min_obl = 0
        if not any((b.get('evaluations') or 0) > 0 for b in bounded):
            crashes.append('bounded stand-in evaluated nothing (vacuity guard)')
    violations, undecided, crashes = [], [], []
    n_obl = n_dis = 0
    solver_time = 0.0
    by_solver = {}
    functions = []
    samples = []
    clause_status = {}
    for r in results:
        if r.get('error'):
            crashes.append(f"{r['key']}[{r['case']}]: {r['error']}")
            continue
        if r.get('info') and r['case'] == 'contract':
            functions.append(dict(r['info'], contract=r['key'], paths=r['paths'], inlined=r.get('inlined', [])))
        if r.get('unsupported'):
            undecided.append({'obligation': f"{r['key']}[{r['case']}]", 'reason': 'unsupported: ' + r['unsupported']})
            continue
        if r['paths'] == 0:
            crashes.append(f"{r['key']}[{r['case']}]: no feasible path (vacuous precondition?)")
        for o in r['obligations']:
            n_obl += 1
            solver_time += o['time']
            cid = clause_id(o['name'])
            if o['status'] == 'discharged':
                n_dis += 1
                by_solver[o['solver']] = by_solver.get(o['solver'], 0) + 1
                clause_status.setdefault(cid, 'discharged')
            elif o['status'] == 'refuted':
                clause_status[cid] = 'refuted'
                rp = o.get('replay') or {}
                reproduced = bool(rp.get('built')) and rp.get('pre_ok') and bool(rp.get('violated'))
                violations.append({'obligation': o['name'], 'path': o['path'], 'contract': r['key'], 'case': r['case'],
                                   'model': o.get('model'), 'replay': rp, 'reproduced': reproduced,
                                   'file': r['file'], 'func': r['func'], 'solver': o['solver'], 'note': o['note']})
            else:
                clause_status[cid] = 'unknown'
                undecided.append({'obligation': o['name'], 'path': o['path'], 'reason': 'solver unknown: ' + str(o['note'])})
        if r['obligations'] and len(samples) < 6:
            samples.append({'obligation': r['obligations'][0]['name'], 'path': r['obligations'][0]['path'],
                            'status': r['obligations'][0]['status'], 'formula': r.get('sample_formula', '')[:900]})
    # bounded tier results
    bounded_cov = []
    for b in bounded:
        if b.get('error'):
            crashes.append(f"bounded {b['name']}: {b['error']}")
            continue
        bounded_cov.append({k: b.get(k) for k in ('name', 'evaluations', 'distinct', 'bound', 'wall', 'exhaustive', 'samples')})
        seen_clauses = set()
        for v in b.get('violations', []):
            if (v.get('clause'), v.get('finding_key')) in seen_clauses:
                continue        # one witness per violated clause
            seen_clauses.add((v.get('clause'), v.get('finding_key')))
            v = dict(v, bounded_script=b.get('script'), bounded_args=b.get('args'))
            violations.append({'obligation': f"bounded:{b['name']}/{v.get('clause')}", 'contract': v.get('contract'),
                               'case': 'bounded', 'model': v.get('input'), 'replay': v, 'reproduced': True,
                               'file': v.get('file'), 'func': v.get('func'), 'solver': 'cpython', 'note': 'bounded tier',
                               'finding_key': v.get('finding_key')})
    # known findings: print, and suppress exactly the listed ones
    out_lines = []
    open_known = [k for k in known if k.get('status') == 'open']
    for k in open_known:
        out_lines.append(f"KNOWN-FINDING: property={prop} {k['what']}")
    remaining = []
    for v in violations:
        fk = v.get('finding_key')
        if fk and any(k.get('finding_key') == fk for k in open_known):
            continue
        remaining.append(v)
    violations = remaining
    if a.update_baseline and not violations and not crashes and REPO == '/repo':
        baseline[prop] = {'clauses': sorted(c for c, s in clause_status.items() if s == 'discharged'),
                          'min_obligations': int(n_obl * 0.8)}
        with open(base_path, 'w') as f:
            json.dump(baseline, f, indent=1, sort_keys=True)
    if n_obl < min_obl and not a.only and not any(r.get('unsupported') for r in results):
        # (functions outside the supported subset are reported as undecided above, not as a checker failure)
        crashes.append(f'only {n_obl} obligations generated, committed minimum is {min_obl} (vacuity guard)')
    exit_code = 0
    vio_lines = []
    # one line per violated clause: a reproduced witness first, then the first path that fails
    violations.sort(key=lambda v: (not v.get('reproduced'),))
    seen_clause = set()
    deduped = []
    for v in violations:
        cid_ = clause_id(v['obligation'])
        if cid_ in seen_clause:
            continue
        seen_clause.add(cid_)
        deduped.append(v)
    n_paths_violating = len(violations)
    violations = deduped
    for v in violations:
        name = hashlib.sha1((v['obligation'] + str(v.get('path'))).encode()).hexdigest()[:10]
        rpath = os.path.join(VERIF, 'replays', f'{prop}-{name}.json')
        with open(rpath, 'w') as f:
            json.dump({'property': prop, 'obligation': v['obligation'], 'path': v.get('path'), 'contract': v['contract'],
                       'case': v['case'], 'file': v['file'], 'function': v['func'], 'inputs': v.get('model'),
                       'native_replay': v.get('replay'), 'reproduced': v['reproduced'], 'solver': v['solver'],
                       'solver_output': v.get('note')}, f, indent=1, default=str)
        if v['reproduced']:
            vio_lines.append(f'VIOLATION property={prop} replay={rpath} obligation={v["obligation"]}')
        elif clause_id(v['obligation']) in base_clauses or v['obligation'].startswith('bounded:'):
            vio_lines.append(f'VIOLATION property={prop} replay={rpath} obligation={v["obligation"]} no-failing-input-found')
        else:
            undecided.append({'obligation': v['obligation'], 'reason': 'refuted by the solver, not reproduced on the real code, '
                              'and not a clause of the committed baseline'})
    if vio_lines:
        exit_code = 1
    elif crashes:
        exit_code = 3
    elif undecided:
        exit_code = 2
    level = P.get('level', 'proof') if (exit_code == 0 and n_obl > 0 and n_obl == n_dis) else 'other'
    cov = {
        'obligations': n_obl, 'discharged': n_dis,
        'checker_cmd': f'./check {prop} --tier {a.tier}',
        'trusted_base': P.get('trusted_base', []) + ['z3 %s' % _z3v(), 'cvc5 1.0.3 (second opinion on unknowns)',
                                                     'pyvc VC generator and its encoding of Python semantics (DESIGN 2.2)'],
        'functions_under_contract': functions,
        'discharged_by_backend': by_solver, 'solver_seconds': round(solver_time, 2),
        'samples': samples or [{'note': 'no obligation generated'}],
        'bounded': bounded_cov,
        'bounded_only_functions': P.get('bounded_only', []),
        'trusted_contracts': sorted(k for k, c_ in world.contracts.items() if c_.get('trusted')),
        'undecided': undecided[:40], 'crashes': crashes[:10],
        'uncovered_clauses': P.get('uncovered', []),
        'known_findings_open': [k['what'] for k in open_known],
        'extraction_drops': _drops(),
        'explanation': P.get('explanation', '') or 'contract-based deductive verification of the real functions; bounded stand-ins listed separately',
        'evaluations': max(n_obl, 1), 'distinct_nontrivial': max(2, len({clause_id(s) for s in clause_status})),
        'rule': 'one evaluation = one (function, clause, path) obligation sent to a solver; distinct = distinct clause identifiers',
    }
    if P.get('level') == 'bounded':
        # decided by the bounded stand-in only: exploration-style evidence, never 'proof'
        level = 'exploration' if exit_code == 0 else 'other'
        n_eval = sum((b.get('evaluations') or 0) for b in bounded_cov)
        cov['evaluations'] = max(n_eval, 1)
        cov['distinct_nontrivial'] = max(2, sum((b.get('distinct') or 0) for b in bounded_cov))
        cov['rule'] = ('one evaluation = one call of the real function on one generated case with all clauses of its contract evaluated '
                       'natively; distinct = distinct (contract, case) pairs; bounds in coverage.bounded[].bound')
        bs = [x for b in bounded_cov for x in (b.get('samples') or [])]
        cov['samples'] = bs[:8] or [{'note': 'no sample recorded'}]
        cov['explanation'] = ('bounded stand-in only (contracts evaluated by CPython on the real functions over enumerated inputs); '
                              'no deductive obligation is claimed for this property - see DESIGN.md 4')
    ev = {'property_id': prop, 'tier': a.tier if a.tier in ('quick', 'thorough') else 'quick', 'seed': seed, 'level': level,
          'coverage': cov, 'assumptions': ENCODING_ASSUMPTIONS + [x for x in world.assumptions if not x.startswith('A3/A6/A7')] + P.get('assumptions', []),
          'wall_s': round(time.time() - t0, 2), 'violations': len(vio_lines)}
    if not a.only and REPO == '/repo':
        with open(os.path.join(VERIF, 'evidence', f'{prop}.json'), 'w') as f:
            json.dump(ev, f, indent=1, default=str)
    for line in out_lines + vio_lines:
        print(line)
    for u in undecided[:20]:
        print('UNDECIDED', u['obligation'], '-', u['reason'][:300])
    for c in crashes[:10]:
        print('CHECKER-ERROR', c[:1500])
    print(f'{prop}: obligations={n_obl} discharged={n_dis} violations={len(vio_lines)} undecided={len(undecided)} '
          f'functions={len(functions)} wall={time.time() - t0:.1f}s exit={exit_code}')
    return exit_code


def _drops():
    from pyvc import extract
    return extract.DROPPED


def _z3v():
    import z3
    return z3.get_version_string()


def do_replay(prop, path):
    with open(path) as f:
        rp = json.load(f)
    props = load_props()
    P = props.PROPS[prop]
    if rp.get('case') == 'bounded':
        # a witness of the bounded tier: run the stand-in again on the current tree, look for the same clause
        nr = rp.get('native_replay') or {}
        out = run_native(nr.get('bounded_script'), {'tier': 'quick', 'seed': 0, 'args': nr.get('bounded_args') or {}}, timeout=1200)
        hit = [v for v in out.get('violations', []) if v.get('clause') == nr.get('clause')]
        print(json.dumps(hit[:1] or {'clause': nr.get('clause'), 'violated': False}, indent=1, default=str))
        if hit:
            print(f'VIOLATION property={prop} replay={path}')
            return 1
        return 0
    world = get_world(P['contract_files'])
    c = world.contracts[rp['contract']]
    out = run_native('pyvc/replay_native.py', {'contract_file': c['module'], 'key': rp['contract'], 'case': rp['case'],
                                               'model': rp['inputs']})
    print(json.dumps(out, indent=1))
    if out.get('violated'):
        print(f'VIOLATION property={prop} replay={path}')
        return 1
    return 0


if __name__ == '__main__':
    sys.exit(main())
