"""pyvc - verification-condition generator for a subset of Python.

Reads functions of /repo from the current working tree (ast), executes them
symbolically path by path against sidecar contracts, and discharges the
resulting obligations with z3 (cvc5 as second opinion on unknowns).
Runs under python3-vt (z3-solver wheel).  See /verif/DESIGN.md section 2.
"""
