"""Iteration (DESIGN 2.5): unrolling of concrete-length loops (L1), the map rule
for comprehensions / all / any over sequences of symbolic length (L2), and
invariant-based for/while loops (L3/L4) with invariants from the sidecar.
"""
import ast
import hashlib
import z3

from . import vals
from .vals import V, Val, IntS, StrS, BoolS, simp, const
from .engine import SV, PV, PyRaise, PyReturn, PyBreak, PyContinue, Unsupported, PathEnd, Path, CLSOF
from . import ops as O


def _key_string(dty, k):
    """key string of an element of the key sequence of a dict: by the declared key kind of the dict when the
    constructor of the key is not visible (dict[obj]:T -> object keys, dict[int]:T -> int keys)"""
    head = (dty or '').split(':', 1)[0]
    if vals._c(k) is None:
        if '[obj]' in head:
            return vals.OBJKEY(V.oid(k))
        if '[int]' in head:
            return vals.INTKEY(V.i(k))
    return vals.ks(k)


class Loops:
    def __init__(self, world):
        self.world = world

    # ------------------------------------------------------------ iteration
    def iter_seq(self, it, v):
        """the sequence (z3 Seq(Val)) of elements python iteration over v yields"""
        if isinstance(v, PV):
            return self.iter_pv(it, v)
        v = it.split_kind(v)
        t = v.t
        kinds = [vals.is_seq(t), V.is_StrV(t), V.is_BytesV(t), V.is_DictV(t), V.is_SetV(t)]
        k = it.choose(kinds + [z3.Not(z3.Or(*kinds))], 'iter')
        if k == 0:
            return simp(vals.seqitems(t))
        i = z3.Int('i!it')
        if k == 1:
            s = V.s(t)
            ln = simp(z3.Length(s))
            if z3.is_int_value(ln):
                return vals.valseq([V.StrV(simp(z3.SubString(s, j, 1))) for j in range(ln.as_long())])
            r = it.fresh('chars', vals.SeqVal)
            it.assume_axiom(z3.Length(r) == z3.Length(s))
            it.assume_axiom(z3.ForAll([i], z3.Implies(z3.And(0 <= i, i < z3.Length(s)),
                                                r[i] == V.StrV(z3.SubString(s, i, 1)))))
            return r
        if k == 2:
            b = V.by(t)
            it.assume_axiom(vals.wf_known(it.refine(t)))
            r = it.fresh('byts', vals.SeqVal)
            it.assume_axiom(z3.Length(r) == z3.Length(b))
            it.assume_axiom(z3.ForAll([i], z3.Implies(z3.And(0 <= i, i < z3.Length(b)), r[i] == V.IntV(b[i]))))
            return r
        if k == 3:
            it.assume_axiom(vals.wf_known(it.refine(t)))     # A4: dict bookkeeping is consistent
            return simp(V.dkeys(t))
        if k == 4:
            # iteration order of a set is unspecified: some sequence of its (distinct) elements
            r = it.fresh('selems', vals.SeqVal)
            kx = z3.String('k!it')
            j = z3.Int('j!it')
            if O.nonstring_keys(it, v):
                # a set of objects: some sequence of its distinct members
                ox = z3.Int('o!it')
                it.assume_axiom(z3.ForAll([i], z3.Implies(z3.And(0 <= i, i < z3.Length(r)),
                                                    z3.And(V.is_ObjV(r[i]), z3.Select(V.selems(t), vals.OBJKEY(V.oid(r[i]))))),
                                          patterns=[r[i]]))
                it.assume_axiom(z3.ForAll([ox], z3.Implies(z3.Select(V.selems(t), vals.OBJKEY(ox)), z3.Contains(r, z3.Unit(V.ObjV(ox))))))
                it.assume_axiom(z3.ForAll([i, j], z3.Implies(z3.And(0 <= i, i < j, j < z3.Length(r)), r[i] != r[j])))
                return r
            it.assume_axiom(z3.ForAll([i], z3.Implies(z3.And(0 <= i, i < z3.Length(r)),
                                                z3.And(V.is_StrV(r[i]), z3.Select(V.selems(t), V.s(r[i]))))))
            it.assume_axiom(z3.ForAll([kx], z3.Implies(z3.Select(V.selems(t), kx), z3.Contains(r, z3.Unit(V.StrV(kx))))))
            it.assume_axiom(z3.ForAll([i, j], z3.Implies(z3.And(0 <= i, i < j, j < z3.Length(r)), r[i] != r[j])))
            return r
        if it.feasible(V.is_ObjV(t)):
            if v.ty in self.world.classes and self.world.classes[v.ty].get('iter_field'):
                fld = self.world.classes[v.ty]['iter_field']
                return self.iter_seq(it, SV(it.read_field(t, fld)))
            raise Unsupported('iteration over object')
        it.raise_('TypeError')

    def iter_pv(self, it, v):
        if v.kind == 'zip':
            seqs = [self.iter_seq(it, a) for a in v.data]
            lens = [simp(z3.Length(s)) for s in seqs]
            if all(z3.is_int_value(l) for l in lens):
                n = min(l.as_long() for l in lens)
                return vals.valseq([V.TupleV(vals.valseq([simp(s[j]) for s in seqs])) for j in range(n)])
            r = it.fresh('zip', vals.SeqVal)
            n = lens[0]
            for l in lens[1:]:
                n = z3.If(l < n, l, n)
            i = z3.Int('i!zip')
            it.assume_axiom(z3.Length(r) == n)
            it.assume_axiom(z3.ForAll([i], z3.Implies(z3.And(0 <= i, i < z3.Length(r)),
                                                r[i] == V.TupleV(vals.valseq([s[i] for s in seqs])))))
            return r
        if v.kind == 'enumerate':
            seq = self.iter_seq(it, v.data[0])
            ln = simp(z3.Length(seq))
            start = 0
            if len(v.data) > 1:
                raise Unsupported('enumerate with start')
            if z3.is_int_value(ln):
                return vals.valseq([V.TupleV(vals.valseq([V.IntV(z3.IntVal(j)), simp(seq[j])])) for j in range(ln.as_long())])
            r = it.fresh('enum', vals.SeqVal)
            i = z3.Int('i!en')
            it.assume_axiom(z3.Length(r) == z3.Length(seq))
            it.assume_axiom(z3.ForAll([i], z3.Implies(z3.And(0 <= i, i < z3.Length(r)),
                                                r[i] == V.TupleV(vals.valseq([V.IntV(i), seq[i]])))))
            return r
        if v.kind == 'range':
            a = [O.ival(x.t) for x in v.data]
            lo, hi = (z3.IntVal(0), a[0]) if len(a) == 1 else (a[0], a[1])
            if len(a) > 2:
                raise Unsupported('range with step')
            lo, hi = simp(lo), simp(hi)
            if z3.is_int_value(lo) and z3.is_int_value(hi):
                return vals.valseq([V.IntV(z3.IntVal(j)) for j in range(lo.as_long(), hi.as_long())])
            r = it.fresh('range', vals.SeqVal)
            i = z3.Int('i!rg')
            it.assume_axiom(z3.Length(r) == z3.If(hi > lo, hi - lo, 0))
            it.assume_axiom(z3.ForAll([i], z3.Implies(z3.And(0 <= i, i < z3.Length(r)), r[i] == V.IntV(lo + i))))
            return r
        if v.kind == 'dictitems':
            d = it.refine(v.data.t)
            if vals._c(d) == 'DictV':
                it.assume_axiom(vals.wf_known(d))
            keys = V.dkeys(d)
            ln = simp(z3.Length(keys))
            if z3.is_int_value(ln):
                return vals.valseq([V.TupleV(vals.valseq([simp(keys[j]), simp(z3.Select(V.dmap(d), _key_string(v.data.ty, simp(keys[j]))))]))
                                    for j in range(ln.as_long())])
            r = it.fresh('items', vals.SeqVal)
            i = z3.Int('i!di')
            it.assume_axiom(z3.Length(r) == z3.Length(keys))
            it.assume_axiom(z3.ForAll([i], z3.Implies(z3.And(0 <= i, i < z3.Length(r)),
                                                r[i] == V.TupleV(vals.valseq([keys[i], z3.Select(V.dmap(d), _key_string(v.data.ty, keys[i]))])))))
            return r
        if v.kind == 'dictvalues':
            d = v.data.t
            keys = V.dkeys(d)
            ln = simp(z3.Length(keys))
            if z3.is_int_value(ln):
                return vals.valseq([simp(z3.Select(V.dmap(d), vals.ks(simp(keys[j])))) for j in range(ln.as_long())])
            r = it.fresh('dvals', vals.SeqVal)
            i = z3.Int('i!dv')
            it.assume_axiom(z3.Length(r) == z3.Length(keys))
            it.assume_axiom(z3.ForAll([i], z3.Implies(z3.And(0 <= i, i < z3.Length(r)),
                                                r[i] == z3.Select(V.dmap(d), vals.ks(keys[i])))))
            return r
        if v.kind == 'genexp':
            res = self.comprehension(it, v.data[0], 'list', v.data[1])
            return V.litems(res.t)
        if v.kind == 'reversed':
            seq = self.iter_seq(it, v.data[0])
            ln = simp(z3.Length(seq))
            if z3.is_int_value(ln):
                return vals.valseq([simp(seq[j]) for j in reversed(range(ln.as_long()))])
            r = it.fresh('rev', vals.SeqVal)
            i = z3.Int('i!rv')
            it.assume_axiom(z3.Length(r) == z3.Length(seq))
            it.assume_axiom(z3.ForAll([i], z3.Implies(z3.And(0 <= i, i < z3.Length(r)), r[i] == seq[z3.Length(seq) - 1 - i])))
            return r
        raise Unsupported(f'iteration over {v}')

    def iter_view(self, it, v):
        """(length term, function index term -> element term) of what iteration over v yields;
        zip / enumerate / dict.items() / range are viewed through their operands, no fresh sequence"""
        if isinstance(v, PV):
            if v.kind == 'zip':
                views = [self.iter_view(it, a) for a in v.data]
                n = views[0][0]
                for ln, _ in views[1:]:
                    n = z3.If(ln < n, ln, n)
                return simp(n), (lambda i, views=views: V.TupleV(vals.valseq([f(i) for _, f in views])))
            if v.kind == 'enumerate' and len(v.data) == 1:
                ln, f = self.iter_view(it, v.data[0])
                return ln, (lambda i, f=f: V.TupleV(vals.valseq([V.IntV(i), f(i)])))
            if v.kind == 'dictitems':
                d = it.refine(v.data.t)
                if vals._c(d) == 'DictV':
                    it.assume_axiom(vals.wf_known(d))
                keys = V.dkeys(d)
                return simp(z3.Length(keys)), (lambda i: V.TupleV(vals.valseq([keys[i], z3.Select(V.dmap(d), _key_string(v.data.ty, keys[i]))])))
            if v.kind == 'dictvalues':
                d = v.data.t
                keys = V.dkeys(d)
                return simp(z3.Length(keys)), (lambda i: z3.Select(V.dmap(d), vals.ks(keys[i])))
            if v.kind == 'range' and len(v.data) <= 2:
                a = [O.ival(x.t) for x in v.data]
                lo, hi = (z3.IntVal(0), a[0]) if len(a) == 1 else (a[0], a[1])
                return simp(z3.If(hi > lo, hi - lo, 0)), (lambda i: V.IntV(lo + i))
        seq = self.iter_seq(it, v)
        return simp(z3.Length(seq)), (lambda i: vals.seq_at(seq, i))

    def elem_types(self, v):
        """static type info of the elements python iteration over v yields"""
        if isinstance(v, SV):
            w = self.world
            if v.ty in w.classes and w.classes[v.ty].get('iter_field'):
                return O._elem_type(w.field_type(v.ty, w.classes[v.ty]['iter_field']))
            if v.ty and v.ty.split(':', 1)[0].split('[', 1)[0] in ('dict', 'enumdict', 'ImmutableDict'):
                # iterating a dict yields its keys: strings unless the dict is declared with object / int keys (A4)
                head = v.ty.split(':', 1)[0]
                return None if ('[obj]' in head or '[int]' in head) else 'str'
            return O._elem_type(v.ty)
        if isinstance(v, PV):
            if v.kind == 'zip':
                return 'tuple|' + '|'.join((self.elem_types(a) or '?') for a in v.data)
            if v.kind == 'dictitems':
                kty = '?' if (v.data.ty and ('[obj]' in v.data.ty.split(':', 1)[0] or '[int]' in v.data.ty.split(':', 1)[0])) else 'str'
                return f'tuple|{kty}|' + (O._elem_type(v.data.ty) or '?')
            if v.kind == 'dictvalues':
                return O._elem_type(v.data.ty)
            if v.kind == 'enumerate':
                return 'tuple|?|' + (self.elem_types(v.data[0]) or '?')
        return None

    def dict_from_pairs(self, it, v):
        seq = self.iter_seq(it, v)
        ln = simp(z3.Length(seq))
        if z3.is_int_value(ln):
            cur = vals.mkdict([])
            for j in range(ln.as_long()):
                pair = SV(simp(seq[j]))
                kv = self.world.ops.unpack(it, pair, 2)
                self.world.ops.outcome(it, [(z3.Not(O._hashable(kv[0].t)), 'TypeError'), (O._hashable(kv[0].t), None)], 'dict key')
                if it.feasible(z3.Not(V.is_StrV(kv[0].t))):
                    raise Unsupported('dict with non-string key (A4)')
                cur = O.dict_store(cur, kv[0].t, kv[1].t)
            return SV(simp(cur))
        # symbolic length: each element must be a 2-sequence (else TypeError / ValueError)
        i = z3.Int('i!dp')
        bad = z3.Exists([i], z3.And(0 <= i, i < z3.Length(seq),
                                    z3.Not(z3.And(vals.is_seq(seq[i]), z3.Length(vals.seqitems(seq[i])) == 2))))
        k = it.choose([z3.Length(seq) == 0, z3.And(z3.Length(seq) > 0, bad), z3.And(z3.Length(seq) > 0, z3.Not(bad))], 'dict(pairs)')
        if k == 0:
            return SV(vals.mkdict([]))
        if k == 1:
            # a non-pair element: TypeError (not iterable) or ValueError (wrong length)
            kk = it.choose([z3.BoolVal(True), z3.BoolVal(True)], 'dict(pairs) error kind')
            it.raise_('TypeError' if kk == 0 else 'ValueError')
        raise Unsupported('dict() from a symbolic-length sequence of pairs')

    # ------------------------------------------------------ sub-exploration
    def sub_explore(self, it, body):
        """run body() under all feasible decisions starting from the current
        state, restoring the state after each.  Returns a list of outcomes:
        (kind, value, added_pc, fresh_consts) with kind in val/exc/ret"""
        snap = it.snapshot()
        outer_path = it.path
        counter0 = it.counter
        nfresh = len(it.fresh_log)
        npc = len(it.pc)
        heap0 = dict(it.heap)
        ghost0 = dict(it.ghost)
        outcomes = []
        kept_obligations = []
        work = [[]]
        n = 0
        try:
            while work:
                script = work.pop()
                n += 1
                if n > 200:
                    raise Unsupported('sub-exploration exceeds 200 paths')
                it.path = Path(script)
                try:
                    try:
                        v = body()
                        kind = 'val'
                    except PyRaise as r:
                        v, kind = r.exc, 'exc'
                    if any(it.heap.get(f) is not heap0.get(f) for f in set(it.heap) | set(heap0)
                           if not (f in it.heap and f not in heap0)):
                        raise Unsupported('heap modified inside a comprehension / quantified body')
                    if any(it.ghost.get(g) is not ghost0.get(g) for g in set(it.ghost) | set(ghost0) if g in ghost0):
                        raise Unsupported('ghost state modified inside a comprehension / quantified body')
                    outcomes.append((kind, v, list(it.pc[npc:]), list(it.fresh_log[nfresh:])))
                    kept_obligations.extend(it.obligations[snap[5]:])
                except PathEnd:
                    pass
                work.extend(it.path.alternatives)
                heap_new = {f: a for f, a in it.heap.items() if f not in heap0}
                it.restore(snap)
                it.heap.update(heap_new)     # lazily created initial arrays stay
                heap0 = dict(it.heap)
                snap = it.snapshot()
                del it.fresh_log[nfresh:]
        finally:
            it.path = outer_path
        it.obligations.extend(kept_obligations)
        return outcomes

    def skolemize(self, it, terms, fresh, index, bound):
        """replace the index constant by the bound variable and every fresh
        constant by a function of the index"""
        subs = [(index, bound)]
        for c in fresh:
            if c.eq(index):
                continue
            f = z3.Function('sk!' + c.decl().name(), IntS, c.sort())
            subs.append((c, f(bound)))
        return [z3.substitute(t, *subs) for t in terms]

    def instantiate(self, it, terms, fresh, index, at):
        subs = [(index, at)]
        for c in fresh:
            if c.eq(index):
                continue
            subs.append((c, it.fresh('in!' + c.decl().name().split('!')[0], c.sort())))
        return [z3.substitute(t, *subs) for t in terms]

    # ------------------------------------------------------- comprehension
    def comprehension(self, it, node, kind, frame=None):
        if len(node.generators) != 1:
            raise Unsupported(f'comprehension with {len(node.generators)} generators@{node.lineno}')
        gen = node.generators[0]
        if gen.is_async:
            raise Unsupported('async comprehension')
        pushed = False
        if frame is not None and (not it.frames or frame is not it.frames[-1]):
            it.frames.append(frame)
            pushed = True
        try:
            return self._comprehension(it, node, gen, kind)
        finally:
            if pushed:
                it.frames.pop()

    def _comprehension(self, it, node, gen, kind):
        itv = it.ev(gen.iter)
        ln, at = self.iter_view(it, itv)
        ety = self.elem_types(itv)
        isdict = isinstance(node, ast.DictComp)
        saved = dict(it.env)

        def elem(x):
            if ety:
                self.world.element_kind(it, x, ety)
            it.assign(gen.target, SV(x, ety))
            for c in gen.ifs:
                if not it.truth(it.ev(c), 'comp if'):
                    return None
            if isdict:
                return (it.ev(node.key), it.ev(node.value))
            return it.ev(node.elt)

        try:
            if z3.is_int_value(ln):
                out = []
                for j in range(ln.as_long()):
                    r = elem(simp(at(z3.IntVal(j))))
                    if r is not None:
                        out.append(r)
                return self.build(it, kind, out, isdict)
            filtered = bool(gen.ifs)
            keyed = (isdict and isinstance(itv, PV) and itv.kind == 'dictitems' and isinstance(gen.target, ast.Tuple)
                     and len(gen.target.elts) == 2 and isinstance(gen.target.elts[0], ast.Name)
                     and isinstance(node.key, ast.Name) and node.key.id == gen.target.elts[0].id)
            if filtered and not keyed and (isdict or kind not in ('list', 'tuple')):
                raise Unsupported(f'filtered dict/set comprehension over a sequence of symbolic length@{node.lineno}')
            idx = it.fresh('ci', IntS)
            rng = z3.And(0 <= idx, idx < ln)
            it.pc.append(rng)
            try:
                outcomes = self.sub_explore(it, lambda: elem(at(idx)))
            finally:
                # the range fact is the last entry unless learning rewrote the list
                for j in range(len(it.pc) - 1, -1, -1):
                    if it.pc[j].eq(rng):
                        del it.pc[j]
                        break
            if not outcomes:
                # body infeasible for every index: the sequence must be empty
                it.assume(ln == 0)
                return self.build(it, kind, [], isdict)
            normal = [o for o in outcomes if o[0] == 'val' and o[1] is not None]
            skipped = [o for o in outcomes if o[0] == 'val' and o[1] is None]
            excs = [o for o in outcomes if o[0] == 'exc']
            k = it.choose([z3.BoolVal(True)] * (1 + len(excs)), f'comp@{node.lineno}')
            if k > 0:
                _, excv, pcs, fresh = excs[k - 1]
                at0 = it.fresh('cx', IntS)
                it.assume(z3.And(0 <= at0, at0 < ln))
                terms = self.instantiate(it, pcs + [excv.t], fresh, idx, at0)
                for p in terms[:-1]:
                    it.assume(p)
                raise PyRaise(SV(terms[-1], excv.ty))
            if keyed:
                return self.keyed_dict_summary(it, node, itv, ln, idx, normal, skipped)
            if filtered:
                # the result holds exactly the mapped elements that pass the filter (their order is kept by
                # python; only membership and the length bound are stated here)
                b = z3.Int('b!cf%d' % it.counter)
                x = z3.Const('x!cf%d' % it.counter, Val)
                r = it.fresh('compf', vals.SeqVal)
                disj = []
                for _, v, pcs, fresh in normal:
                    terms = self.skolemize(it, pcs + [it.as_val(v)], fresh, idx, b)
                    disj.append(z3.And(*terms[:-1], x == terms[-1]))
                member = z3.Exists([b], z3.And(0 <= b, b < ln, z3.Or(*disj))) if disj else z3.BoolVal(False)
                it.assume(z3.ForAll([x], z3.Contains(r, z3.Unit(x)) == member))
                it.assume(z3.Length(r) <= ln)
                tys = {v.ty for _, v, _, _ in normal if isinstance(v, SV)}
                rty = list(tys)[0] if len(tys) == 1 and None not in tys else None
                if kind == 'tuple':
                    return SV(V.TupleV(r), f'tuple:{rty}' if rty else None)
                return SV(V.ListV(r), f'list:{rty}' if rty else None)
            if not normal:
                it.assume(ln == 0)
                return self.build(it, kind, [], isdict)
            b = z3.Int('b!ci%d' % it.counter)
            if isdict or kind == 'dictpairs':
                return self.dict_summary(it, node, None, idx, b, normal, isdict)
            r = it.fresh('comp', vals.SeqVal)
            it.assume(z3.Length(r) == ln)
            disj = []
            for _, v, pcs, fresh in normal:
                terms = self.skolemize(it, pcs + [it.as_val(v)], fresh, idx, b)
                disj.append(z3.And(*terms[:-1], r[b] == terms[-1]))
            it.assume(z3.ForAll([b], z3.Implies(z3.And(0 <= b, b < ln), z3.Or(*disj))))
            rty = None
            tys = {v.ty for _, v, _, _ in normal if isinstance(v, SV)}
            if len(tys) == 1 and None not in tys:
                rty = list(tys)[0]
            if kind == 'tuple':
                return SV(V.TupleV(r), f'tuple:{rty}' if rty else None)
            if kind == 'list':
                return SV(V.ListV(r), f'list:{rty}' if rty else None)
            if kind == 'set':
                raise Unsupported('set comprehension over symbolic length')
            raise Unsupported(f'comprehension kind {kind}')
        finally:
            for nme in list(it.env):
                if nme not in saved:
                    del it.env[nme]
            for nme, v in saved.items():
                it.env[nme] = v

    def keyed_dict_summary(self, it, node, itv, ln, idx, normal, skipped):
        """{k: f(v) for k, v in d.items() if c(k, v)}: the result has exactly the keys of d that pass the filter,
        each mapped to f of its value (the keys of a dict are pairwise distinct, so no entry overwrites another)"""
        d = it.refine(itv.data.t)
        keys = V.dkeys(d)
        r = it.fresh('dcomp', Val)
        it.assume_axiom(V.is_DictV(r))
        it.learn(V.is_DictV(r))
        r = it.refine(r)
        b = z3.Int('b!dc%d' % it.counter)
        kb = vals.ks(keys[b])
        conj = []
        for _, kv, pcs, fresh in normal:
            terms = self.skolemize(it, pcs + [it.as_val(kv[1])], fresh, idx, b)
            conj.append(z3.Implies(z3.And(*terms[:-1]), z3.And(z3.Select(V.dhas(r), kb), z3.Select(V.dmap(r), kb) == terms[-1])))
        for _, _none, pcs, fresh in skipped:
            terms = self.skolemize(it, pcs + [V.NoneV], fresh, idx, b)
            conj.append(z3.Implies(z3.And(*terms[:-1]), z3.Not(z3.Select(V.dhas(r), kb))))
        it.assume(z3.ForAll([b], z3.Implies(z3.And(0 <= b, b < ln), z3.And(*conj)), patterns=[keys[b]]), summary=True)
        sx = z3.String('s!dc%d' % it.counter)
        it.assume(z3.ForAll([sx], z3.Implies(z3.Select(V.dhas(r), sx), z3.Select(V.dhas(d), sx))), summary=True)
        it.assume(z3.Length(V.dkeys(r)) <= ln)
        it.assume(vals.wf(r, 1), summary=True)
        tys = {kv[1].ty for _, kv, _, _ in normal if isinstance(kv[1], SV)}
        ty = f'dict:{list(tys)[0]}' if len(tys) == 1 and None not in tys else None
        return SV(r, ty)

    def dict_summary(self, it, node, seq, idx, b, normal, isdict):
        """{k: v for ...} / dict((k, v) for ...) over a sequence of symbolic length
        whose keys are pairwise distinct is summarised by membership + mapping"""
        raise Unsupported(f'dict comprehension over a sequence of symbolic length@{node.lineno}')

    def build(self, it, kind, out, isdict):
        if isdict or kind == 'dictpairs':
            cur = vals.mkdict([])
            for item in out:
                if isdict:
                    kx, vx = item
                else:
                    kx, vx = self.world.ops.unpack(it, item, 2)
                if it.feasible(z3.Not(V.is_StrV(kx.t))):
                    self.world.ops.outcome(it, [(z3.Not(O._hashable(kx.t)), 'TypeError'), (O._hashable(kx.t), None)], 'dict key')
                    raise Unsupported('dict with non-string key (A4)')
                cur = O.dict_store(cur, kx.t, it.as_val(vx))
            tys = {(i[1].ty if isdict else None) for i in out}
            ty = f'dict:{list(tys)[0]}' if len(tys) == 1 and None not in tys else None
            return SV(simp(cur), ty)
        terms = [it.as_val(x) for x in out]
        tys = {x.ty for x in out if isinstance(x, SV)}
        ety = list(tys)[0] if len(tys) == 1 and None not in tys and out else None
        if kind == 'tuple':
            return SV(V.TupleV(vals.valseq(terms)), f'tuple:{ety}' if ety else None)
        if kind == 'list':
            return SV(V.ListV(vals.valseq(terms)), f'list:{ety}' if ety else None)
        if kind == 'set':
            for t in terms:
                if it.feasible(z3.Not(V.is_StrV(t))):
                    raise Unsupported('set of non-strings (A4)')
            return SV(V.SetV(vals.strset([V.s(t) for t in terms])))
        raise Unsupported(f'comprehension kind {kind}')

    # --------------------------------------------------------------- all/any
    def all_any(self, it, arg, is_all):
        if isinstance(arg, PV) and arg.kind == 'genexp':
            node, frame = arg.data
            pushed = False
            if frame is not it.frames[-1]:
                it.frames.append(frame)
                pushed = True
            try:
                return self._all_any_gen(it, node, is_all)
            finally:
                if pushed:
                    it.frames.pop()
        seq = self.iter_seq(it, arg)
        ln = simp(z3.Length(seq))
        if z3.is_int_value(ln):
            ts = [vals.truthy(simp(seq[j])) for j in range(ln.as_long())]
            return SV(V.BoolV(z3.And(*ts) if is_all else z3.Or(*ts))) if ts else SV(const(is_all))
        b = z3.Int('b!aa%d' % it.counter)
        body = vals.truthy(seq[b])
        rng = z3.And(0 <= b, b < z3.Length(seq))
        return SV(V.BoolV(z3.ForAll([b], z3.Implies(rng, body)) if is_all else z3.Exists([b], z3.And(rng, body))))

    def _all_any_gen(self, it, node, is_all):
        if len(node.generators) != 1:
            raise Unsupported('all/any with several generators')
        gen = node.generators[0]
        itv = it.ev(gen.iter)
        ln, at = self.iter_view(it, itv)
        ety = self.elem_types(itv)
        saved = dict(it.env)
        try:
            if z3.is_int_value(ln):
                for j in range(ln.as_long()):
                    it.assign(gen.target, SV(simp(at(z3.IntVal(j))), ety))
                    skip = False
                    for c in gen.ifs:
                        if not it.truth(it.ev(c), 'all/any if'):
                            skip = True
                            break
                    if skip:
                        continue
                    t = it.truth(it.ev(node.elt), 'all/any elem')
                    if is_all and not t:
                        return SV(const(False))
                    if not is_all and t:
                        return SV(const(True))
                return SV(const(is_all))
            idx = it.fresh('qi', IntS)
            rng0 = z3.And(0 <= idx, idx < ln)
            it.pc.append(rng0)

            def elem():
                if ety:
                    self.world.element_kind(it, at(idx), ety)
                it.assign(gen.target, SV(at(idx), ety))
                guard = z3.BoolVal(True)
                for c in gen.ifs:
                    guard = z3.And(guard, self.world.ops.truthy(it, it.ev(c)))
                v = it.ev(node.elt)
                tv = self.world.ops.truthy(it, v)
                return SV(V.BoolV(z3.Implies(guard, tv) if is_all else z3.And(guard, tv)))
            try:
                outcomes = self.sub_explore(it, elem)
            finally:
                for j in range(len(it.pc) - 1, -1, -1):
                    if it.pc[j].eq(rng0):
                        del it.pc[j]
                        break
            if any(o[0] == 'exc' for o in outcomes):
                raise Unsupported(f'element test of all/any may raise@{node.lineno}')
            b = z3.Int('b!q%d' % it.counter)
            disj = []
            for _, v, pcs, fresh in outcomes:
                fresh = [c for c in fresh if not c.eq(idx)]
                if fresh and it.mode == 'spec':
                    raise Unsupported('quantified spec body introduces fresh values')
                terms = self.skolemize(it, pcs + [V.b(v.t)], fresh, idx, b)
                disj.append(z3.And(*terms))
            rng = z3.And(0 <= b, b < ln)
            if is_all:
                # for every index some path applies and its test holds
                body = z3.Or(*disj) if disj else z3.BoolVal(False)
                return SV(V.BoolV(z3.ForAll([b], z3.Implies(rng, body))))
            body = z3.Or(*disj) if disj else z3.BoolVal(False)
            return SV(V.BoolV(z3.Exists([b], z3.And(rng, body))))
        finally:
            for nme in list(it.env):
                if nme not in saved:
                    del it.env[nme]
            for nme, v in saved.items():
                it.env[nme] = v

    # ------------------------------------------------------------- for / while
    def loop_spec(self, it, s, kind):
        fr = it.frames[-1]
        fkey = fr.fkey
        spec = self.world.loop_spec(fkey, s, kind)
        return spec

    def exec_for(self, it, s):
        iter_node = s.iter
        if isinstance(iter_node, ast.Call) and isinstance(iter_node.func, ast.Name) and iter_node.func.id == 'list' \
                and len(iter_node.args) == 1 and not iter_node.keywords and 'list' not in it.env:
            # for ... in list(x): iteration over a snapshot of x; containers have value semantics here, so the
            # iterated sequence is fixed at loop entry in either form
            iter_node = iter_node.args[0]
        itv = it.ev(iter_node)
        self._items_of = None
        if isinstance(itv, PV) and itv.kind == 'dictitems' and isinstance(iter_node, ast.Call) \
                and isinstance(iter_node.func, ast.Attribute) and iter_node.func.attr == 'items':
            self._items_of = iter_node.func.value       # for k, v in X.items(): v aliases the slot X[k]
        seq = self.iter_seq(it, itv)
        ety = self.elem_types(itv)
        ln = simp(z3.Length(seq))
        if z3.is_int_value(ln) and (ln.as_long() <= 1 or not (self.loop_spec(it, s, 'for') or {}).get('use_invariant')):
            broke = False
            for j in range(ln.as_long()):
                it.assign(s.target, SV(simp(seq[j]), ety))
                self._alias_item_value(it, s)
                try:
                    it.exec_block(s.body)
                except PyBreak:
                    broke = True
                    break
                except PyContinue:
                    continue
            if not broke:
                it.exec_block(s.orelse)
            return
        spec = self.loop_spec(it, s, 'for')
        if spec is None:
            raise Unsupported(f'for loop over a sequence of symbolic length needs an invariant@{s.lineno}')
        # iteration over the keys of a dict / the elements of a set: the invariant may speak about the set of
        # keys already visited (`done__`), see invariant_loop
        keyinfo = None
        self._key_is_obj = False
        if isinstance(itv, PV) and itv.kind == 'dictitems':
            d = it.refine(itv.data.t)
            keyinfo = (V.dhas(d), lambda el: V.titems(el)[0])
            self._key_is_obj = bool(itv.data.ty and '[obj]' in itv.data.ty.split(':', 1)[0])
        elif isinstance(itv, SV):
            t = it.refine(itv.t)
            if vals._c(t) == 'DictV':
                keyinfo = (t.arg(1), lambda el: el)
            elif vals._c(t) == 'SetV':
                keyinfo = (t.arg(0), lambda el: el)
        self.invariant_loop(it, s, spec, seq, ety, keyinfo)

    def _alias_item_value(self, it, s):
        """for k, v in X.items(): a mutation of v is a mutation of X[k] (python object identity)"""
        node = getattr(self, '_items_of', None)
        t = s.target
        if node is None or not (isinstance(t, ast.Tuple) and len(t.elts) == 2 and all(isinstance(e, ast.Name) for e in t.elts)):
            return
        from .engine import _Lit
        kv, vv = it.env.get(t.elts[0].id), it.env.get(t.elts[1].id)
        if isinstance(kv, SV) and isinstance(vv, SV):
            slot = ast.Subscript(value=node, slice=_Lit(kv), ctx=ast.Load())
            ast.copy_location(slot, node)
            slot.lineno = getattr(node, 'lineno', 0)
            it.env[t.elts[1].id] = SV(vv.t, vv.ty, slot)

    def modified(self, body):
        names, fields = set(), set()
        MUT = {'append', 'extend', 'add', 'discard', 'remove', 'update', 'pop', 'setdefault', 'clear', 'insert', 'popitem'}

        def root(n):
            via_field = False
            while isinstance(n, (ast.Subscript, ast.Attribute)):
                if isinstance(n, ast.Attribute):
                    fields.add(n.attr)
                    via_field = True
                n = n.value
            if isinstance(n, ast.Name) and not via_field:
                # x[...] = v / x.append(v) changes the value bound to x; obj.field... changes the heap, not the name
                names.add(n.id)

        def tgt(t):
            if isinstance(t, ast.Name):
                names.add(t.id)
            elif isinstance(t, (ast.Tuple, ast.List)):
                for x in t.elts:
                    tgt(x)
            elif isinstance(t, ast.Attribute):
                fields.add(t.attr)
            elif isinstance(t, ast.Subscript):
                root(t.value)
            elif isinstance(t, ast.Starred):
                tgt(t.value)
        for st in body:
            for n in ast.walk(st):
                if isinstance(n, ast.Assign):
                    for t in n.targets:
                        tgt(t)
                elif isinstance(n, (ast.AugAssign, ast.AnnAssign)):
                    tgt(n.target)
                elif isinstance(n, (ast.For, ast.comprehension)):
                    tgt(n.target)
                elif isinstance(n, ast.NamedExpr):
                    tgt(n.target)
                elif isinstance(n, ast.ExceptHandler) and n.name:
                    names.add(n.name)
                elif isinstance(n, ast.With):
                    for i in n.items:
                        if i.optional_vars is not None:
                            tgt(i.optional_vars)
                elif isinstance(n, ast.Delete):
                    for t in n.targets:
                        tgt(t)
                elif isinstance(n, ast.Call) and isinstance(n.func, ast.Attribute) and n.func.attr in MUT:
                    root(n.func.value)
        return names, fields

    def havoc(self, it, names, fields, spec):
        for nme in sorted(names):
            if nme in it.env and isinstance(it.env[nme], SV):
                old = it.env[nme]
                it.env[nme] = SV(it.fresh('hv_' + nme, Val), old.ty, old.src)
        for f in sorted(set(fields) | set(spec.get('modifies', []))):
            it.havoc_field(f)
        for g in spec.get('ghost', []):
            it.ghost[g] = it.fresh('hv_' + g, vals.SeqVal)

    def check_inv(self, it, spec, when, extra_env, label):
        extra_env = dict(it.env, **extra_env)
        extra_env.update(getattr(it, 'ghost_param_env', None) or {})
        if getattr(it, 'entry_old', None) is not None:
            extra_env['old!heap'] = it.entry_old
        for nme, text in spec['invariant'].items():
            it.oblige(f'{label}/inv.{nme}/{when}', self.world.clause(it, text, extra_env), kind='loop-invariant')

    def assume_inv(self, it, spec, extra_env):
        extra_env = dict(it.env, **extra_env)
        extra_env.update(getattr(it, 'ghost_param_env', None) or {})
        if getattr(it, 'entry_old', None) is not None:
            extra_env['old!heap'] = it.entry_old
        for nme, text in spec['invariant'].items():
            it.assume(self.world.clause(it, text, extra_env, None, 'assume'))

    def invariant_loop(self, it, s, spec, seq, ety, keyinfo=None):
        label = spec['label']
        names, fields = self.modified(s.body)
        tnames, _ = self.modified([ast.Assign(targets=[s.target], value=ast.Constant(value=None))])
        seqv = SV(V.TupleV(seq))
        env0 = {'i__': SV(const(0)), 'seq__': seqv}
        if keyinfo is not None:
            env0['done__'] = SV(V.SetV(vals.EMPTY_HAS), 'set[obj]')
        self.check_inv(it, spec, 'entry', env0, label)
        k = it.choose([z3.BoolVal(True), z3.BoolVal(True)], f'loop@{s.lineno}')
        self.havoc(it, names, fields, spec)
        if k == 0:
            i = it.fresh('li', IntS)
            it.assume(z3.And(0 <= i, i < z3.Length(seq)))
            env = {'i__': SV(V.IntV(i)), 'seq__': seqv}
            if keyinfo is not None:
                # keys visited before this iteration: some subset of the key set not containing the current key
                has, keyof = keyinfo
                D = it.fresh('done', z3.ArraySort(StrS, BoolS))
                kx = z3.String('k!done')
                # the declared kinds of the element (and of the key inside an items() pair) first: the key is split below
                self.world.element_kind(it, seq[i], ety)
                if ety and ety.startswith('tuple|') and ety.split('|')[1] not in ('?', ''):
                    self.world.element_kind(it, it.refine(keyof(seq[i])), ety.split('|')[1])
                if getattr(self, '_key_is_obj', False):
                    it.assume_axiom(V.is_ObjV(keyof(seq[i])))       # a dict declared dict[obj]:T has object keys
                cur = it.refine(keyof(seq[i]))
                curk = vals.ks(it.split_kind(SV(cur)).t)
                it.assume_axiom(vals.key_axiom(it.refine(cur)))
                it.assume(z3.ForAll([kx], z3.Implies(z3.Select(D, kx), z3.Select(has, kx))))
                it.assume(z3.And(z3.Not(z3.Select(D, curk)), z3.Select(has, curk)))
                env['done__'] = SV(V.SetV(D), 'set[obj]')
                done_next = SV(V.SetV(z3.Store(D, curk, z3.BoolVal(True))), 'set[obj]')
            self.assume_inv(it, spec, env)
            self.world.element_kind(it, seq[i], ety)
            it.assign(s.target, SV(seq[i], ety))
            self._alias_item_value(it, s)
            heap_before = dict(it.heap)
            try:
                it.exec_block(s.body)
            except PyContinue:
                pass
            except PyBreak:
                # leaves the loop without else; the state is the havoc'd one plus the body's effects
                return
            self.check_frame(it, heap_before, fields, spec, s)
            env1 = {'i__': SV(V.IntV(i + 1)), 'seq__': seqv}
            if keyinfo is not None:
                env1['done__'] = done_next
            self.check_inv(it, spec, 'preserved', env1, label)
            raise PathEnd('loop iteration checked')
        env = {'i__': SV(V.IntV(z3.Length(seq))), 'seq__': seqv}
        if keyinfo is not None:
            env['done__'] = SV(V.SetV(keyinfo[0]), 'set[obj]')
        self.assume_inv(it, spec, env)
        for nme in tnames:
            it.env.pop(nme, None)
        it.exec_block(s.orelse)

    def check_frame(self, it, heap_before, fields, spec, s):
        allowed = set(fields) | set(spec.get('modifies', []))
        for f, arr in it.heap.items():
            if f in heap_before and heap_before[f] is not arr and f not in allowed:
                raise Unsupported(f'loop@{s.lineno} modifies field {f} outside its declared frame')

    def exec_while(self, it, s):
        spec = self.loop_spec(it, s, 'while')
        if spec is None:
            raise Unsupported(f'while loop needs an invariant@{s.lineno}')
        label = spec['label']
        names, fields = self.modified(s.body)
        self.check_inv(it, spec, 'entry', {}, label)
        k = it.choose([z3.BoolVal(True), z3.BoolVal(True)], f'while@{s.lineno}')
        self.havoc(it, names, fields, spec)
        self.assume_inv(it, spec, {})
        cond = it.truth(it.ev(s.test), f'while test@{s.lineno}')
        if k == 0:
            if not cond:
                raise PathEnd('iteration branch with false condition')
            heap_before = dict(it.heap)
            try:
                it.exec_block(s.body)
            except PyContinue:
                pass
            except PyBreak:
                return
            self.check_frame(it, heap_before, fields, spec, s)
            self.check_inv(it, spec, 'preserved', {}, label)
            raise PathEnd('loop iteration checked')
        if cond:
            raise PathEnd('exit branch with true condition')
        it.exec_block(s.orelse)
