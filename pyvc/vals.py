"""The SMT value universe (DESIGN 2.2): one recursive datatype `Val`.

Floats are reals plus the three tags PInf/NInf/NaN (assumption A1).
Dictionaries have string keys (A4): insertion order `dkeys`, key set `dhas`,
mapping `dmap`.  Sets are sets of strings.  Objects are references `ObjV(id)`;
their fields live in per-field heap arrays kept by the interpreter.
"""
import sys
from fractions import Fraction
import z3

_Val = z3.Datatype('Val')
_VR = z3.DatatypeSort('Val')
StrS = z3.StringSort()
IntS = z3.IntSort()
RealS = z3.RealSort()
BoolS = z3.BoolSort()
_Val.declare('NoneV')
_Val.declare('BoolV', ('b', BoolS))
_Val.declare('IntV', ('i', IntS))
_Val.declare('FloatV', ('r', RealS))
_Val.declare('PInf')
_Val.declare('NInf')
_Val.declare('NaN')
_Val.declare('StrV', ('s', StrS))
_Val.declare('BytesV', ('by', z3.SeqSort(IntS)))
_Val.declare('TupleV', ('titems', z3.SeqSort(_VR)))
_Val.declare('ListV', ('litems', z3.SeqSort(_VR)))
_Val.declare('DictV', ('dkeys', z3.SeqSort(_VR)),
             ('dhas', z3.ArraySort(StrS, BoolS)),
             ('dmap', z3.ArraySort(StrS, _VR)))
_Val.declare('SetV', ('selems', z3.ArraySort(StrS, BoolS)))
_Val.declare('EnumV', ('eid', IntS), ('ename', StrS), ('ecode', IntS))
_Val.declare('ObjV', ('oid', IntS))
_Val.declare('ClsV', ('cid', IntS))
Val = _Val.create()
SeqVal = z3.SeqSort(Val)

V = Val  # short alias

FMAX = Fraction(sys.float_info.max)
FMIN = Fraction(sys.float_info.min)
FMAXR = z3.RealVal(str(FMAX))
FMINR = z3.RealVal(str(FMIN))


def realval(x):
    if isinstance(x, float):
        return z3.RealVal(str(Fraction(x)))
    return z3.RealVal(str(Fraction(x)))


def const(x):
    """Python constant -> Val term"""
    if x is None:
        return V.NoneV
    if x is True or x is False:
        return V.BoolV(z3.BoolVal(x))
    if isinstance(x, int):
        return V.IntV(z3.IntVal(x))
    if isinstance(x, float):
        if x != x:
            return V.NaN
        if x == float('inf'):
            return V.PInf
        if x == float('-inf'):
            return V.NInf
        return V.FloatV(realval(x))
    if isinstance(x, str):
        return V.StrV(z3.StringVal(x))
    if isinstance(x, bytes):
        return V.BytesV(intseq(list(x)))
    if isinstance(x, tuple):
        return V.TupleV(valseq([const(e) for e in x]))
    if isinstance(x, list):
        return V.ListV(valseq([const(e) for e in x]))
    if isinstance(x, dict):
        return mkdict([(k, const(v)) for k, v in x.items()])
    if isinstance(x, (set, frozenset)):
        return V.SetV(strset(list(x)))
    raise TypeError(f'no Val constant for {x!r}')


def valseq(items):
    if not items:
        return z3.Empty(SeqVal)
    if len(items) == 1:
        return z3.Unit(items[0])
    return z3.Concat(*[z3.Unit(t) for t in items])


def intseq(items):
    S = z3.SeqSort(IntS)
    if not items:
        return z3.Empty(S)
    if len(items) == 1:
        return z3.Unit(z3.IntVal(items[0]))
    return z3.Concat(*[z3.Unit(z3.IntVal(t)) for t in items])


def strset(names):
    a = z3.K(StrS, z3.BoolVal(False))
    for n in names:
        a = z3.Store(a, n if z3.is_expr(n) else z3.StringVal(n), z3.BoolVal(True))
    return a


EMPTY_HAS = z3.K(StrS, z3.BoolVal(False))
EMPTY_MAP = z3.K(StrS, V.NoneV)


def mkdict(pairs):
    """pairs: list of (python str | z3 String, Val term)"""
    keys = []
    has = EMPTY_HAS
    mp = EMPTY_MAP
    for k, v in pairs:
        if isinstance(k, int) and not isinstance(k, bool):
            kv = V.IntV(z3.IntVal(k))
            kt = INTKEY(z3.IntVal(k))
        else:
            kt = z3.StringVal(k) if isinstance(k, str) else k
            kv = V.StrV(kt)
        keys.append(kv)
        has = z3.Store(has, kt, z3.BoolVal(True))
        mp = z3.Store(mp, kt, v)
    return V.DictV(valseq(keys), has, mp)


def int_key_axioms(x):
    """injectivity instances for the integer keys of a dict constant"""
    out = []
    if isinstance(x, dict):
        for k, v in x.items():
            if isinstance(k, int) and not isinstance(k, bool):
                out.append(key_axiom(V.IntV(z3.IntVal(k))))
            out.extend(int_key_axioms(v))
    return out


# ---------------------------------------------------------------- predicates

def is_number(v):
    """bool, int or finite float"""
    c = _c(v)
    if c is not None:
        return z3.BoolVal(c in ('BoolV', 'IntV', 'FloatV'))
    return z3.Or(V.is_BoolV(v), V.is_IntV(v), V.is_FloatV(v))


def is_floatlike(v):
    """python float (incl. inf / nan)"""
    return z3.Or(V.is_FloatV(v), V.is_PInf(v), V.is_NInf(v), V.is_NaN(v))


def is_numlike(v):
    """anything `+ 0.0` accepts: bool, int, float incl. inf/nan, EnumMember"""
    c = _c(v)
    if c is not None:
        return z3.BoolVal(c in ('BoolV', 'IntV', 'FloatV', 'PInf', 'NInf', 'NaN', 'EnumV'))
    return z3.Or(is_number(v), V.is_PInf(v), V.is_NInf(v), V.is_NaN(v), V.is_EnumV(v))


def _c(v):
    if z3.is_app(v) and v.sort() == Val:
        n = v.decl().name()
        if n in CTORS:
            return n
    return None


def num(v):
    """real value of a finite number (unspecified for other kinds)"""
    c = _c(v)
    if c == 'IntV':
        return z3.ToReal(v.arg(0))
    if c == 'FloatV':
        return v.arg(0)
    if c == 'BoolV':
        return z3.If(v.arg(0), z3.RealVal(1), z3.RealVal(0))
    if c == 'EnumV':
        return z3.ToReal(v.arg(2))
    return z3.If(V.is_BoolV(v), z3.If(V.b(v), z3.RealVal(1), z3.RealVal(0)),
                 z3.If(V.is_IntV(v), z3.ToReal(V.i(v)),
                       z3.If(V.is_EnumV(v), z3.ToReal(V.ecode(v)), V.r(v))))


def is_finite(v):
    c = _c(v)
    if c is not None:
        return z3.BoolVal(c in ('BoolV', 'IntV', 'FloatV', 'EnumV'))
    return z3.Or(is_number(v), V.is_EnumV(v))


def mkfloat(r):
    """real -> python float value under A1 (overflow to +-inf)"""
    return z3.If(r > FMAXR, V.PInf, z3.If(r < -FMAXR, V.NInf, V.FloatV(r)))


def seqitems(v):
    return z3.If(V.is_TupleV(v), V.titems(v), V.litems(v))


def is_seq(v):
    return z3.Or(V.is_TupleV(v), V.is_ListV(v))


def truthy(v):
    c = _c(v)
    if c == 'BoolV':
        return v.arg(0)
    if c in ('NoneV',):
        return z3.BoolVal(False)
    if c in ('PInf', 'NInf', 'NaN', 'ObjV', 'ClsV'):
        return z3.BoolVal(True)
    if c == 'IntV':
        return v.arg(0) != 0
    if c == 'FloatV':
        return v.arg(0) != 0
    if c == 'StrV':
        return z3.Length(v.arg(0)) > 0
    if c in ('TupleV', 'ListV', 'BytesV'):
        return z3.Length(v.arg(0)) > 0
    if c == 'DictV':
        return z3.Length(v.arg(0)) > 0
    if c == 'EnumV':
        return v.arg(2) != 0
    return z3.Or(
        z3.And(V.is_BoolV(v), V.b(v)),
        z3.And(V.is_IntV(v), V.i(v) != 0),
        z3.And(V.is_FloatV(v), V.r(v) != 0),
        V.is_PInf(v), V.is_NInf(v), V.is_NaN(v),
        z3.And(V.is_StrV(v), z3.Length(V.s(v)) > 0),
        z3.And(V.is_BytesV(v), z3.Length(V.by(v)) > 0),
        z3.And(V.is_TupleV(v), z3.Length(V.titems(v)) > 0),
        z3.And(V.is_ListV(v), z3.Length(V.litems(v)) > 0),
        z3.And(V.is_DictV(v), z3.Length(V.dkeys(v)) > 0),
        z3.And(V.is_SetV(v), V.selems(v) != EMPTY_HAS),
        z3.And(V.is_EnumV(v), V.ecode(v) != 0),
        V.is_ObjV(v), V.is_ClsV(v))


def simp(t):
    return z3.simplify(t)


# dictionary / set keys: strings, or object references encoded by an injective function into strings that
# start with NUL (no SECoP string contains NUL)
OBJKEY = z3.Function('objkey', IntS, StrS)
KEYOBJ = z3.Function('keyobj', StrS, IntS)


INTKEY = z3.Function('intkey', IntS, StrS)
KEYINT = z3.Function('keyint', StrS, IntS)


PAIRKEY = z3.Function('pairkey', StrS, StrS, StrS)
KEYP1 = z3.Function('keyp1', StrS, StrS)
KEYP2 = z3.Function('keyp2', StrS, StrS)


def _pair_strings(k):
    """(a, b) when k is visibly a 2-tuple of strings, else None"""
    if _c(k) != 'TupleV':
        return None
    try:
        from .vc import seq_elems
        els = [simp(e) for e in seq_elems(simp(k.arg(0)))]
    except Exception:
        return None
    if len(els) == 2 and all(_c(e) == 'StrV' for e in els):
        return els[0].arg(0), els[1].arg(0)
    return None


def is_key(k):
    c = _c(k)
    if c in ('ObjV', 'IntV', 'BoolV', 'EnumV'):
        return z3.BoolVal(True)
    if _pair_strings(k) is not None:
        return z3.BoolVal(True)
    if c == 'FloatV':
        # a whole float hashes and compares like the int
        return z3.ToReal(z3.ToInt(k.arg(0))) == k.arg(0)
    return V.is_StrV(k)      # a key of unknown kind is a string or not a key at all (A4)


def ks(k):
    """the key string of a key value (object keys are recognised when the constructor is known)"""
    c = _c(k)
    if c == 'StrV':
        return k.arg(0)
    if c == 'ObjV':
        return OBJKEY(k.arg(0))
    if c == 'IntV':
        return INTKEY(k.arg(0))
    if c == 'EnumV':
        return INTKEY(k.arg(2))
    if c == 'BoolV':
        return INTKEY(z3.If(k.arg(0), z3.IntVal(1), z3.IntVal(0)))
    if c == 'FloatV':
        return INTKEY(z3.ToInt(k.arg(0)))
    pr = _pair_strings(k)
    if pr is not None:
        return PAIRKEY(pr[0], pr[1])
    return V.s(k)


_qi = z3.Int('k!inj')
OBJKEY_INJ = z3.ForAll([_qi], z3.And(KEYOBJ(OBJKEY(_qi)) == _qi, z3.PrefixOf(z3.StringVal('\x00'), OBJKEY(_qi))),
                       patterns=[OBJKEY(_qi)])
INTKEY_INJ = z3.ForAll([_qi], z3.And(KEYINT(INTKEY(_qi)) == _qi, z3.PrefixOf(z3.StringVal('\x01'), INTKEY(_qi))),
                       patterns=[INTKEY(_qi)])


_qa, _qb = z3.String('k!pa'), z3.String('k!pb')
PAIRKEY_INJ = z3.ForAll([_qa, _qb], z3.And(KEYP1(PAIRKEY(_qa, _qb)) == _qa, KEYP2(PAIRKEY(_qa, _qb)) == _qb,
                                           z3.PrefixOf(z3.StringVal('\x02'), PAIRKEY(_qa, _qb))),
                        patterns=[PAIRKEY(_qa, _qb)])


def key_axiom(k):
    """the key encodings are injective (and disjoint from SECoP strings, which contain no control characters)"""
    c = _c(k)
    if _pair_strings(k) is not None:
        return PAIRKEY_INJ
    if c == 'ObjV':
        return OBJKEY_INJ
    if c in ('IntV', 'EnumV', 'BoolV', 'FloatV'):
        return INTKEY_INJ
    return z3.BoolVal(True)


def seq_at(seq, i):
    """seq[i] with concatenations resolved structurally (the seq solver is weak on nth over concat)"""
    seq = simp(seq)
    if z3.is_app(seq):
        k = seq.decl().kind()
        if k == z3.Z3_OP_SEQ_UNIT:
            return seq.arg(0)
        if k == z3.Z3_OP_SEQ_CONCAT:
            parts = seq.children()
            off = z3.IntVal(0)
            res = None
            # build from the last part backwards: If(i < end_0, p0[i], If(i < end_1, p1[i-len0], ...))
            ends = []
            for p in parts:
                ends.append((off, p))
                off = off + z3.Length(p)
            res = seq_at(ends[-1][1], i - ends[-1][0])
            for (o, p), (o2, _) in zip(reversed(ends[:-1]), reversed(ends[1:])):
                res = z3.If(i < o2, seq_at(p, i - o), res)
            return res
    return seq[i]


def tag_of(t):
    """constructor name if the term is syntactically a constructor application"""
    t = simp(t)
    if z3.is_app(t) and t.sort() == Val:
        n = t.decl().name()
        if n in CTORS:
            return n
    return None


CTOR_NAMES = [Val.constructor(k).name() for k in range(Val.num_constructors())]
CTOR_INDEX = {n: k for k, n in enumerate(CTOR_NAMES)}
CTORS = {'NoneV', 'BoolV', 'IntV', 'FloatV', 'PInf', 'NInf', 'NaN', 'StrV', 'BytesV',
         'TupleV', 'ListV', 'DictV', 'SetV', 'EnumV', 'ObjV', 'ClsV'}


def wf_known(v):
    """well-formedness facts of a value whose constructor is known (global assumptions of the value
    model: floats are within range, dict bookkeeping is consistent (A4), bytes are bytes)"""
    c = _c(v)
    i = z3.Int('wf!i')
    j = z3.Int('wf!j')
    if c == 'FloatV':
        return z3.And(v.arg(0) <= FMAXR, v.arg(0) >= -FMAXR)
    if c == 'DictV':
        kseq, has = v.arg(0), v.arg(1)
        return z3.And(
            z3.ForAll([i], z3.Implies(z3.And(0 <= i, i < z3.Length(kseq)),
                                      z3.Or(z3.And(V.is_StrV(kseq[i]), z3.Select(has, V.s(kseq[i]))),
                                            z3.And(V.is_ObjV(kseq[i]), z3.Select(has, OBJKEY(V.oid(kseq[i]))))))),
            z3.ForAll([i, j], z3.Implies(z3.And(0 <= i, i < j, j < z3.Length(kseq)), kseq[i] != kseq[j])),
            z3.Implies(z3.Length(kseq) == 0, has == EMPTY_HAS))
    if c == 'BytesV':
        b = v.arg(0)
        return z3.ForAll([i], z3.Implies(z3.And(0 <= i, i < z3.Length(b)), z3.And(b[i] >= 0, b[i] <= 255)))
    return None


def wf(v, depth=2):
    """well-formedness of an input value (finite floats in range, dict key
    bookkeeping consistent, nested to `depth` levels by quantifiers)"""
    i = z3.Int('wf!i%d' % depth)
    cs = [z3.Implies(V.is_FloatV(v), z3.And(V.r(v) <= FMAXR, V.r(v) >= -FMAXR))]
    ks = V.dkeys(v)
    j = z3.Int('wf!j%d' % depth)
    cs.append(z3.Implies(V.is_DictV(v), z3.And(
        z3.ForAll([i], z3.Implies(z3.And(0 <= i, i < z3.Length(ks)),
                                  z3.And(V.is_StrV(ks[i]), z3.Select(V.dhas(v), V.s(ks[i]))))),
        z3.ForAll([i, j], z3.Implies(z3.And(0 <= i, i < j, j < z3.Length(ks)), ks[i] != ks[j])),
        z3.Implies(z3.Length(ks) == 0, V.dhas(v) == EMPTY_HAS))))
    cs.append(z3.Implies(V.is_BytesV(v), z3.ForAll(
        [i], z3.Implies(z3.And(0 <= i, i < z3.Length(V.by(v))),
                        z3.And(V.by(v)[i] >= 0, V.by(v)[i] <= 255)))))
    return z3.And(*cs)
