"""Native replay of a counter-model against the real code (run by /venv/bin/python).

stdin: JSON {contract_file, key, case, model, clauses}
stdout: JSON {built, outcome, result, exc, clauses: {name: true/false/error}, violated: [...]}

The receiver is built by the contract's `witness` expression from the model's
field values (F[...]); the same contract text that produced the VC is
evaluated by CPython on the observed outcome.
"""
import ast
import copy
import importlib
import importlib.util
import json
import os
import sys
import traceback
import types
from fractions import Fraction

VERIF = os.path.dirname(os.path.dirname(os.path.abspath(__file__)))
sys.path.insert(0, VERIF)
sys.path.insert(0, os.environ.get('VERIF_REPO', '/repo'))


def to_py(v):
    if isinstance(v, dict):
        if '$float' in v:
            f = v['$float']
            if isinstance(f, str):
                return float(f)
            return float(Fraction(f[0], f[1]))
        if '$frac' in v:
            return float(Fraction(v['$frac'][0], v['$frac'][1]))
        if '$str' in v:
            return v['$str']
        if '$bytes' in v:
            return bytes(v['$bytes'])
        if '$tuple' in v:
            return tuple(to_py(x) for x in v['$tuple'])
        if '$dict' in v:
            return {k if isinstance(k, str) else to_py(k): to_py(x) for k, x in v['$dict']}
        if '$enum' in v:
            from frappy.lib.enum import Enum
            name = to_py(v['$enum'][0]) or 'x'
            return Enum('replay', **{name: v['$enum'][1]})[name]
        if '$set' in v:
            raise ValueError('set value not reconstructible')
        if '$obj' in v or '$cls' in v:
            raise ValueError('object reference not reconstructible')
        raise ValueError(f'unknown literal {v}')
    if isinstance(v, list):
        return [to_py(x) for x in v]
    return v


class _LazyImplies(ast.NodeTransformer):
    """implies(a, b) is lazy in the contract language: natively it becomes (not a) or b"""
    def visit_Call(self, node):
        self.generic_visit(node)
        if isinstance(node.func, ast.Name) and node.func.id == 'implies' and len(node.args) == 2 and not node.keywords:
            return ast.BoolOp(op=ast.Or(), values=[ast.UnaryOp(op=ast.Not(), operand=node.args[0]), node.args[1]])
        return node


def lazy(text):
    tree = _LazyImplies().visit(ast.parse(text.strip(), mode='eval'))
    return compile(ast.fix_missing_locations(tree), '<clause>', 'eval')


def load_module(path, name=None):
    name = name or 'contracts_' + os.path.basename(path)[:-3]
    with open(path, encoding='utf-8') as f:
        tree = _LazyImplies().visit(ast.parse(f.read(), path))
    mod = types.ModuleType(name)
    mod.__file__ = path
    sys.modules[name] = mod
    exec(compile(ast.fix_missing_locations(tree), path, 'exec'), mod.__dict__)
    return mod


def resolve(file, qual):
    modname = file[:-3].replace('/', '.')
    if modname.endswith('.__init__'):
        modname = modname[:-9]
    mod = importlib.import_module(modname)
    obj = mod
    owner = None
    for part in qual.split('.'):
        if part.startswith('__') and not part.endswith('__') and isinstance(obj, type):
            part = f'_{obj.__name__}{part}'       # private name mangling
        owner, obj = obj, getattr(obj, part)
    return mod, obj


def old_exprs(text):
    """sub-expressions old(...) of a clause"""
    out = []
    for n in ast.walk(ast.parse(text.strip(), mode='eval')):
        if isinstance(n, ast.Call) and isinstance(n.func, ast.Name) and n.func.id == 'old':
            out.append(ast.unparse(n.args[0]))
    return out


def attempt(req, cmod, c, member_expr):
    out = {'built': False, 'violated': [], 'clauses': {}}
    model = req['model']
    F = {}
    args = {}
    for k, v in model.items():
        if k.startswith('self.'):
            try:
                F[k[5:]] = to_py(v)
            except ValueError:
                pass
        elif k != 'self' and not k.startswith('closure.'):
            args[k] = to_py(v)
    mod, fn = resolve(c['file'], c['func'])
    import frappy.errors
    ns = dict(vars(frappy.errors))
    ns.update(vars(cmod))
    ns.update({k: v for k, v in vars(mod).items() if not k.startswith('__')})
    ns['F'] = F
    if member_expr is not None:
        ns['MEMBER'] = eval(member_expr, ns)
        nmem = len(model.get('self.members', {}).get('$tuple', [])) if isinstance(model.get('self.members'), dict) else 1
        ns['MEMBERS'] = [eval(member_expr, ns) for _ in range(max(nmem, 1))]
        out['member'] = member_expr
    selfobj = None
    if c.get('witness'):
        selfobj = eval(c['witness'], ns)
    out['built'] = True
    out.update(evaluate(c, req.get('case', 'contract'), ns, fn, selfobj, args))
    return out


def namespace(cmod, c):
    mod, fn = resolve(c['file'], c['func'])
    import frappy.errors
    ns = dict(vars(frappy.errors))
    ns.update(vars(cmod))
    ns.update({k: v for k, v in vars(mod).items() if not k.startswith('__')})
    return ns, fn


def evaluate(c, case, ns, fn, selfobj, args, ghosts=None, call=None):
    """run the real function on (selfobj, args) and evaluate the contract's clauses on the observed outcome.
    ghosts: name -> live object (ghost logs kept by instrumentation); call: override for the invocation"""
    out = {'violated': [], 'clauses': {}}
    env = dict(args)
    ghosts = ghosts or {}
    env.update(ghosts)
    if selfobj is not None:
        env['self'] = selfobj
    if case == 'contract':
        ens, rai, extra = c.get('ensures', {}), c.get('raises', {}), []
        if call is not None and c.get('bounded_ensures'):
            ens = dict(ens, **c['bounded_ensures'])      # clauses of the bounded stand-in only
        if call is not None and c.get('bounded_raises') and isinstance(rai, dict):
            rai = dict(rai, **c['bounded_raises'])
    else:
        lem = c['lemmas'][case]
        ens, rai, extra = lem.get('ensures', {}), lem.get('raises', 'never'), lem.get('requires', [])
    # preconditions must hold natively, else the model does not transfer (A1, uninterpreted parts)
    pre_ok = True
    for text in list(c.get('requires', [])) + list(c.get('assumes', [])) + list(extra):
        try:
            if not eval(lazy(text), dict(ns, **env)):
                pre_ok = False
                out.setdefault('pre_failed', []).append(text)
        except Exception as e:
            pre_ok = False
            out.setdefault('pre_failed', []).append(f'{text}: {type(e).__name__}: {e}')
    out['pre_ok'] = pre_ok
    if not pre_ok and ghosts is not None and call is not None:
        return out
    olds = {}
    for text in list(ens.values()) + (list(rai.values()) if isinstance(rai, dict) else []):
        for oe in old_exprs(text):
            olds[oe] = _snapshot(eval(oe, dict(ns, **env)))
    call_args = dict(args)
    from pyvc import native as _native
    _native.PRE_IDS.clear()
    _native.PRE_IDS.update(_native.reach_ids([selfobj] + list(args.values())))
    out['args'] = {k: repr(v)[:300] for k, v in call_args.items()}
    out['receiver'] = repr(selfobj)[:300]
    try:
        if call is not None:
            result = call()
        elif selfobj is not None:
            result = fn(selfobj, **call_args)
        else:
            result = fn(**call_args)
        out['outcome'] = 'ret'
        out['result'] = repr(result)[:500]
        env['result'] = result
        clauses = ens
        if rai == 'must':
            out['violated'].append('must-raise')
    except Exception as e:      # the real code raised
        out['outcome'] = 'exc'
        out['exc'] = f'{type(e).__name__}: {e}'[:500]
        env['exc'] = type(e)
        env['excval'] = e
        clauses = rai if isinstance(rai, dict) else {}
        if rai == 'never':
            out['violated'].append('never-raises')
    for k, g in ghosts.items():
        env[k] = g
    for name, text in clauses.items():
        t = text
        for oe, val in olds.items():
            key = f'__old{abs(hash(oe))}'
            env[key] = val
            t = t.replace(f'old({oe})', key)
        try:
            ok = bool(eval(lazy(t), dict(ns, **env)))
            out['clauses'][name] = ok
            if not ok:
                out['violated'].append(('ensures.' if out['outcome'] == 'ret' else 'raises.') + name)
        except Exception as e:
            out['clauses'][name] = f'error: {type(e).__name__}: {e}'
            out['violated'].append(('ensures.' if out['outcome'] == 'ret' else 'raises.') + name)
    return out


def _snapshot(v):
    """old(...) value: containers are copied (one level deep for dict/list/set values), objects kept by reference"""
    if isinstance(v, dict):
        return {k: _snapshot(x) for k, x in v.items()}
    if isinstance(v, list):
        return [_snapshot(x) for x in v]
    if isinstance(v, set):
        return set(v)
    if isinstance(v, tuple):
        return tuple(_snapshot(x) for x in v)
    if isinstance(v, (int, float, str, bytes, bool, type(None))):
        return v
    return v


def main():
    req = json.load(sys.stdin)
    out = {'built': False, 'violated': [], 'clauses': {}}
    try:
        cmod = load_module(req['contract_file'])
        c = [x for x in cmod.CONTRACTS if x['key'] == req['key']][0]
        members = [None]
        if c.get('witness') and 'MEMBER' in c['witness']:
            members = list(getattr(cmod, 'CATALOGUE', []))
        tried = []
        for mexpr in members:
            try:
                out = attempt(req, cmod, c, mexpr)
            except Exception as e:
                out = {'built': False, 'violated': [], 'clauses': {}, 'error': f'{type(e).__name__}: {e}', 'member': mexpr}
            tried.append(mexpr)
            if out.get('built') and out.get('pre_ok') and out.get('violated'):
                break
        out['members_tried'] = tried
    except Exception as e:
        out['error'] = f'{type(e).__name__}: {e}'
        out['trace'] = traceback.format_exc()[-1500:]
    json.dump(out, sys.stdout)


if __name__ == '__main__':
    main()
