"""Call resolution (DESIGN 2.4), attribute access, encoded builtins.

Order: contract -> sidecar-marked inline helper -> encoded builtin -> Unsupported.
"""
import ast
import z3

from . import vals
from .vals import V, Val, IntS, StrS, BoolS, simp, const, num, FMAXR
from .engine import SV, PV, PyRaise, PyReturn, Unsupported, PathEnd, CLSOF, Frame
from . import ops as O

B64ENC = z3.Function('b64enc', z3.SeqSort(IntS), StrS)
B64DEC = z3.Function('b64dec', StrS, z3.SeqSort(IntS))
B64CANON = z3.Function('b64valid', StrS, BoolS)      # s is accepted by strict (validate=True) decoding
B64LENIENT_OK = z3.Function('b64lenient_ok', StrS, BoolS)
B64LENIENT = z3.Function('b64lenient', StrS, z3.SeqSort(IntS))

BUILTIN_TYPES = {'int', 'float', 'bool', 'str', 'bytes', 'tuple', 'list', 'dict', 'set', 'object', 'type', 'frozenset'}


class Calls:
    def __init__(self, world):
        self.world = world

    # ================================================================ calls
    def call_expr(self, it, e):
        # super().m(...)
        if isinstance(e.func, ast.Attribute) and isinstance(e.func.value, ast.Call) \
                and isinstance(e.func.value.func, ast.Name) and e.func.value.func.id == 'super':
            return self.call_super(it, e)
        if isinstance(e.func, ast.Name) and e.func.id == 'old' and 'old!heap' in it.env:
            heap, ghost = it.env['old!heap']
            cur = (it.heap, it.ghost)
            it.heap, it.ghost = dict(heap), dict(ghost)
            try:
                return it.ev(e.args[0])
            finally:
                it.heap, it.ghost = cur
        if isinstance(e.func, ast.Name) and e.func.id == 'implies' and len(e.args) == 2 and it.mode == 'spec' \
                and 'implies' not in it.env:
            # implication is lazy in its conclusion: implies(a, b) == (not a) or b
            node = ast.BoolOp(op=ast.Or(), values=[ast.UnaryOp(op=ast.Not(), operand=e.args[0]), e.args[1]])
            ast.copy_location(node, e)
            ast.fix_missing_locations(node)
            r = it.ev(node)
            return SV(V.BoolV(vals.truthy(r.t))) if isinstance(r, SV) else r
        f = it.ev(e.func)
        args, kwargs = self.eval_args(it, e)
        return self.call_value(it, f, args, kwargs, e)

    def eval_args(self, it, e):
        args = []
        packs = []          # sequence terms of all positional arguments, in order (for *seq of symbolic length)
        symbolic = False
        for a in e.args:
            if isinstance(a, ast.Starred):
                v = it.ev(a.value)
                seq = self.world.loops.iter_seq(it, v)
                n = simp(z3.Length(seq))
                packs.append(seq)
                if not z3.is_int_value(n):
                    symbolic = True
                    continue
                ety = O._elem_type(v.ty) if isinstance(v, SV) else None
                args.extend(SV(simp(seq[j]), ety) for j in range(n.as_long()))
            else:
                v = it.ev(a)
                args.append(v)
                packs.append(z3.Unit(it.as_val(v)) if isinstance(v, SV) else None)
        kwargs = {}
        for k in e.keywords:
            if k.arg is None:
                if len(e.keywords) == 1 and not e.args:
                    return [], {'**': it.ev(k.value)}
                raise Unsupported(f'**kwargs call@{e.lineno}')
            kwargs[k.arg] = it.ev(k.value)
        if symbolic:
            # f(*seq) with a sequence of symbolic length: only abstract callees can take it (as one pack)
            if kwargs or any(p is None for p in packs):
                raise Unsupported(f'*args of unknown length@{e.lineno}')
            allseq = packs[0] if len(packs) == 1 else z3.Concat(*packs)
            return [], {'*': SV(V.TupleV(allseq))}
        return args, kwargs

    def call_value(self, it, f, args, kwargs, node):
        w = self.world
        if isinstance(f, PV):
            kind = f.kind
            if kind == 'builtin':
                return w.builtins.call(it, f.data, args, kwargs, node)
            if kind == 'spec':
                return self.call_spec(it, f.data, args, kwargs)
            if kind == 'dispatch':
                return w.call_dispatch(it, f.data, args, kwargs)
            if kind == 'uf':
                return w.call_uf(it, f.data, args)
            if kind == 'inv':
                obj = args[0]
                return SV(V.BoolV(w.class_invariant(it, obj, obj.ty)))
            if kind == 'class':
                return self.instantiate(it, f.data, args, kwargs, node)
            if kind == 'func':
                file, name = f.data
                return self.call_named(it, file, name, None, None, args, kwargs, node)
            if kind == 'bound':
                obj, cls, mname = f.data
                return self.call_method(it, obj, cls, mname, args, kwargs, node)
            if kind == 'unbound':
                cls, mname = f.data
                if not args:
                    raise Unsupported('unbound method call without self')
                return self.call_method(it, args[0], cls, mname, args[1:], kwargs, node, static=True)
            if kind == 'bound_builtin':
                obj, mname, write_back = f.data
                return w.builtins.method(it, obj, mname, args, kwargs, node, write_back)
            if kind in ('closure', 'lambda'):
                return self.call_closure(it, f, args, kwargs)
            if kind == 'abstract':
                # abstract callable described by a contract name
                return w.apply_contract(it, w.contract(f.data['contract']), f.data.get('bound', {}), args, kwargs, node)
            raise Unsupported(f'call of {f}')
        # SV: callable object
        if f.ty and f.ty.startswith('callable:'):
            return w.apply_contract(it, w.contract(f.ty.split(':', 1)[1]), {'callee': f}, args, kwargs, node)
        if f.ty:
            return self.call_method(it, f, f.ty, '__call__', args, kwargs, node)
        raise Unsupported(f'call of untyped value@{getattr(node, "lineno", 0)}')

    def call_spec(self, it, name, args, kwargs):
        fdef, file = self.world.specs[name]
        bound = self.bind_params(it, fdef, args, kwargs, None)
        saved = it.mode
        it.mode = 'spec'
        try:
            return it.call_function(fdef, ('spec', file, name), None, bound)
        finally:
            it.mode = saved

    def bind_params(self, it, fdef, args, kwargs, selfv, frame=None):
        a = fdef.args
        names = [x.arg for x in a.posonlyargs + a.args]
        bound = {}
        pos = list(args)
        if selfv is not None:
            pos = [selfv] + pos
        if len(pos) > len(names) and a.vararg is None:
            it.raise_('TypeError')
        for n, v in zip(names, pos):
            bound[n] = v
        if a.vararg is not None:
            extra = pos[len(names):]
            bound[a.vararg.arg] = SV(V.TupleV(vals.valseq([it.as_val(x) for x in extra])))
        kw_extra = {}
        for k, v in kwargs.items():
            if k in names or k in [x.arg for x in a.kwonlyargs]:
                if k in bound:
                    it.raise_('TypeError')
                bound[k] = v
            elif a.kwarg is not None:
                kw_extra[k] = v
            else:
                it.raise_('TypeError')
        if a.kwarg is not None:
            bound[a.kwarg.arg] = SV(vals.mkdict([(k, it.as_val(v)) for k, v in kw_extra.items()]))
        # defaults
        defaults = a.defaults
        for n, d in zip(names[len(names) - len(defaults):], defaults):
            if n not in bound:
                bound[n] = self.eval_default(it, d, frame)
        for x, d in zip(a.kwonlyargs, a.kw_defaults):
            if x.arg not in bound and d is not None:
                bound[x.arg] = self.eval_default(it, d, frame)
        for n in names:
            if n not in bound:
                it.raise_('TypeError')
        return bound

    def eval_default(self, it, d, frame):
        if isinstance(d, ast.Constant):
            return SV(const(d.value))
        if frame is not None:
            it.frames.append(frame)
            try:
                return it.ev(d)
            finally:
                it.frames.pop()
        return it.ev(d)

    def call_closure(self, it, f, args, kwargs):
        node, frame = f.data
        if isinstance(node, ast.Lambda):
            fake = ast.FunctionDef(name='<lambda>', args=node.args, body=[ast.Return(value=node.body)],
                                   decorator_list=[], lineno=node.lineno)
            ast.fix_missing_locations(fake)
            fdef = fake
        else:
            fdef = node
        bound = self.bind_params(it, fdef, args, kwargs, None)
        closure = dict(frame.closure)
        closure.update(frame.env)
        return it.call_function(fdef, frame.fkey, frame.cls, bound, closure)

    def call_super(self, it, e):
        fr = it.frames[-1]
        if fr.cls is None:
            raise Unsupported('super() outside class')
        mname = e.func.attr
        selfv = fr.env.get('self') or fr.env.get('cls')
        args, kwargs = self.eval_args(it, e)
        w = self.world
        dyn = selfv.ty if isinstance(selfv, SV) and selfv.ty in w.classes else fr.cls
        mro = w.mro(dyn)
        if fr.cls not in mro:
            mro = w.mro(fr.cls)
        rest = mro[mro.index(fr.cls) + 1:]
        for c in rest:
            if c in w.classes and mname in w.classes[c]['methods']:
                return self.call_method(it, selfv, c, mname, args, kwargs, e, static=True)
        # a base class outside the class table (external library): its method by contract
        for c in mro:
            for b in w.classes.get(c, {}).get('bases', []):
                ct = w.contracts.get(f'{b}.{mname}')
                if ct is not None:
                    return w.apply_contract(it, ct, {'self': selfv}, args, kwargs, e)
        if mname in ('__init__', '__init_subclass__'):
            return SV(V.NoneV)
        raise Unsupported(f'super().{mname} not found from {fr.cls}')

    def call_method(self, it, obj, cls, mname, args, kwargs, node, static=False):
        """method call on object `obj` whose static class is `cls`"""
        w = self.world
        info = w.classes.get(cls)
        if info is None:
            raise Unsupported(f'method {mname} of unknown class {cls}')
        abstract = (info.get('abstract') or mname in info.get('virtual', ())) and not static
        if abstract:
            c = w.contracts.get(f'iface::{cls}.{mname}')
            if c is None and w.contracts.get(f'{cls}.{mname}', {}).get('file'):
                # a concrete method of the abstract base, under its own verified contract
                # (subclasses overriding it are assumed to keep that contract)
                c = w.contracts[f'{cls}.{mname}']
            if c is None:
                raise Unsupported(f'no interface contract iface::{cls}.{mname}')
            return w.apply_contract(it, c, {'self': obj}, args, kwargs, node)
        # concrete: contract for exactly this class first, then for the defining class
        defcls = w.defining_class(cls, mname)
        if defcls is None:
            c = w.contracts.get(f'{cls}.{mname}')
            if c is not None:
                return w.apply_contract(it, c, {'self': obj}, args, kwargs, node)
            raise Unsupported(f'{cls}.{mname} not found')
        for key in (f'{cls}.{mname}', f'{defcls}.{mname}'):
            c = w.contracts.get(key)
            if c is not None and not w.is_current_target(it, c, obj):
                if c.get('self_type') in (None, cls) or key == f'{defcls}.{mname}' and not c.get('self_type_exact'):
                    return w.apply_contract(it, c, {'self': obj}, args, kwargs, node)
        if w.may_inline(defcls, mname):
            fdef = w.classes[defcls]['methods'][mname]
            if any(isinstance(d, ast.Name) and d.id == 'property' for d in fdef.decorator_list):
                pass
            bound = self.bind_params(it, fdef, args, kwargs, obj)
            it.world.note_inlined(f'{defcls}.{mname}')
            return it.call_function(fdef, (w.classes[defcls]['file'], f'{defcls}.{mname}'), defcls, bound)
        raise Unsupported(f'call of {cls}.{mname}: no contract and not marked inline')

    def call_named(self, it, file, name, cls, obj, args, kwargs, node):
        w = self.world
        c = w.contracts.get(name) or w.contracts.get(f'{file}::{name}')
        if c is not None:
            return w.apply_contract(it, c, {}, args, kwargs, node)
        if w.may_inline(None, name):
            fdef, _ = w.src.func(file, name)
            bound = self.bind_params(it, fdef, args, kwargs, None)
            it.world.note_inlined(f'{file}::{name}')
            return it.call_function(fdef, (file, name), None, bound)
        raise Unsupported(f'call of {file}::{name}: no contract and not marked inline')

    def instantiate(self, it, clsname, args, kwargs, node):
        w = self.world
        if clsname in BUILTIN_TYPES:
            return w.builtins.call(it, clsname, args, kwargs, node)
        if it.cids.issub(clsname, 'BaseException'):
            return it.make_exc(clsname, args)
        c = w.contracts.get(f'new::{clsname}')
        if c is not None:
            return w.apply_contract(it, c, {}, args, kwargs, node)
        if clsname in w.classes and w.classes[clsname].get('methods') is not None:
            # a class of the verified sources: a fresh object, then its __init__ (inlined when listed in INLINE)
            defcls = w.defining_class(clsname, '__init__')
            if defcls is None and not args and not kwargs:
                return it.new_object(clsname)
            if defcls is not None and w.may_inline(defcls, '__init__'):
                obj = it.new_object(clsname)
                self.call_method(it, obj, clsname, '__init__', args, kwargs, node)
                return obj
        raise Unsupported(f'instantiation of {clsname} without constructor contract new::{clsname}')

    # =========================================================== attributes
    def getattr(self, it, obj, name, node=None):
        w = self.world
        if isinstance(obj, PV):
            if obj.kind == 'module':
                return w.module_attr(it, obj.data, name)
            if obj.kind == 'class':
                return w.class_attr(it, obj.data, name)
            if obj.kind == 'modattr':
                return w.module_attr(it, obj.data + '.' + name, None)
            if name in ('__qualname__', '__name__') and obj.kind in ('bound', 'func', 'unbound', 'closure', 'lambda'):
                # the name of a function / method: some fixed string
                d = obj.data
                text = '.'.join(str(x) for x in d[1:]) if isinstance(d, tuple) and len(d) >= 3 else str(d[-1] if isinstance(d, tuple) else d)
                return SV(const(text if name == '__qualname__' else text.split('.')[-1]), 'str')
            raise Unsupported(f'attribute {name} of {obj}')
        ty = obj.ty
        if name == '__name__' and ty and ty.split('|')[0].startswith('callable:'):
            # functions have a name (assumption: the callables stored in such fields are functions / methods)
            NAME = w.uf('funcname!', [IntS, StrS])
            return SV(V.StrV(NAME(V.oid(obj.t))), 'str')
        if ty in w.classes:
            return self.object_attr(it, obj, ty, name, node)
        obj = it.split_kind(obj)
        t = obj.t
        # data values
        tag = vals.tag_of(t)
        if name in w.builtins.DATA_METHODS:
            return PV('bound_builtin', (obj, name, node.value if node is not None else None))
        if name in ('name', 'value') and (tag == 'EnumV' or not it.feasible(z3.Not(V.is_EnumV(t)))):
            return SV(V.StrV(V.ename(t)) if name == 'name' else V.IntV(V.ecode(t)))
        if ty is None and tag in (None, 'ObjV') and name not in ('name', 'value'):
            # an object whose class is fixed by the path condition (after isinstance / a class invariant)
            for cname in w.classes:
                if w.field_type(cname, name) is not None and w.classes[cname].get('fields') and name in w.classes[cname]['fields'] \
                        and not it.feasible(z3.Not(z3.And(V.is_ObjV(t), it.cids.sub(CLSOF(V.oid(t)), cname)))):
                    return self.object_attr(it, SV(it.refine(t), cname, obj.src), cname, name, node)
        if ty is None and tag is None:
            # unknown kind: attribute error for plain data, enum member attributes for enum values
            if name in ('name', 'value'):
                k = it.choose([V.is_EnumV(t), z3.Not(V.is_EnumV(t))], 'enum attr')
                if k == 0:
                    return SV(V.StrV(V.ename(t)) if name == 'name' else V.IntV(V.ecode(t)))
                if it.feasible(V.is_ObjV(t)):
                    raise Unsupported(f'attribute {name} of untyped object')
                it.raise_('AttributeError')
            if it.feasible(V.is_ObjV(t)):
                raise Unsupported(f'attribute {name} of untyped object@{getattr(node, "lineno", 0)}')
            it.raise_('AttributeError')
        if tag is not None and tag != 'ObjV':
            it.raise_('AttributeError')
        raise Unsupported(f'attribute {name} of value typed {ty}@{getattr(node, "lineno", 0)}')

    def object_attr(self, it, obj, cls, name, node):
        w = self.world
        if vals.tag_of(it.refine(obj.t)) != 'ObjV':
            # a value that may be None (or any non-object): attribute access raises AttributeError
            if not it.branch(V.is_ObjV(obj.t), 'attribute of possibly-None value'):
                it.raise_('AttributeError')
            obj = SV(it.refine(obj.t), obj.ty, obj.src)
        fty = w.field_type(cls, name)
        if fty is not None:
            if fty.startswith('const:'):
                return w.class_attr(it, cls, name)
            v = it.read_field(obj.t, name)
            return SV(v, None if fty in ('any',) else _static(fty), node)
        defcls = w.defining_class(cls, name)
        if defcls is not None:
            fdef = w.classes[defcls]['methods'][name]
            if any(isinstance(d, ast.Name) and d.id == 'property' for d in fdef.decorator_list):
                return self.call_method(it, obj, cls, name, [], {}, node)
            return PV('bound', (obj, cls, name))
        if (w.classes[cls].get('abstract') or name in w.classes[cls].get('virtual', ())) and f'iface::{cls}.{name}' in w.contracts:
            return PV('bound', (obj, cls, name))
        if f'{cls}.{name}' in w.contracts:
            return PV('bound', (obj, cls, name))
        # class-level constant
        ca = w.class_const(cls, name)
        if ca is not None:
            return ca
        dynf = w.classes[cls].get('dyn_fields') or {}
        if name in dynf:
            # an attribute that only some instances have (hasattr(self, name) decides): the per-object dynamic attribute map
            d = w.dynattr
            sname = z3.StringVal(name)
            has = z3.Select(z3.Select(d.has_arr(it), V.oid(obj.t)), sname)
            if not it.branch(has, f'has attribute {name}'):
                it.raise_('AttributeError')
            val = z3.Select(z3.Select(d.val_arr(it), V.oid(obj.t)), sname)
            w.element_kind(it, val, dynf[name])
            return SV(val, _static(dynf[name]), node)
        if w.classes[cls].get('open_fields'):
            # attribute not declared anywhere: AttributeError or a value, as the class schema says
            raise Unsupported(f'undeclared attribute {cls}.{name}')
        missing = w.classes[cls].get('missing_attr')
        if missing == 'AttributeError' or w.classes[cls].get('closed'):
            it.raise_('AttributeError')
        raise Unsupported(f'undeclared attribute {cls}.{name}@{getattr(node, "lineno", 0)}')

    def setattr(self, it, obj, name, v):
        if isinstance(obj, PV):
            raise Unsupported(f'assignment to attribute of {obj}')
        w = self.world
        if obj.ty in w.classes:
            w.check_field_write(it, obj, obj.ty, name)
            it.write_field(obj.t, name, it.as_val(v))
            return
        raise Unsupported(f'attribute assignment on untyped value .{name}')

    def object_getitem(self, it, obj, idx):
        if obj.ty in self.world.classes:
            return self.call_method(it, obj, obj.ty, '__getitem__', [idx], {}, None)
        raise Unsupported('subscript of untyped object')

    def object_setitem(self, it, obj, idx, v):
        raise Unsupported('item assignment on object')

    def enum_getitem(self, it, obj, idx):
        return self.world.apply_contract(it, self.world.contract('Enum.__getitem__'), {'self': obj}, [idx], {}, None)

    # ----------------------------------------------------------------- with
    def with_enter(self, it, cm, item):
        # locks: ghost set of held locks
        if isinstance(cm, SV) and cm.ty in ('lock', 'rlock'):
            it.locks.append(cm.t)
            return None
        if isinstance(cm, SV) and cm.ty in self.world.classes and self.world.classes[cm.ty].get('context_manager') == 'self':
            return cm
        raise Unsupported(f'with on {cm}')

    def with_exit(self, it, cm, tok):
        if isinstance(cm, SV) and cm.ty in self.world.classes and self.world.classes[cm.ty].get('context_manager') == 'self':
            return
        if isinstance(cm, SV) and cm.ty in ('lock', 'rlock'):
            for k in range(len(it.locks) - 1, -1, -1):
                if it.locks[k].eq(cm.t):
                    del it.locks[k]
                    break
            return


def _static(fty):
    """schema field type -> static type tag carried by SV"""
    fty = fty.replace('|none', '')
    if fty in ('float', 'number', 'any', 'set', 'none'):
        return None
    return fty


SINGLETON_IDS = (-101, -102, -103, -104)


class Builtins:
    DATA_METHODS = {'items', 'keys', 'values', 'get', 'pop', 'setdefault', 'update', 'copy', 'append', 'extend',
                    'encode', 'decode', 'strip', 'startswith', 'endswith', 'split', 'join', 'replace', 'format',
                    'discard', 'add', 'remove', 'lower', 'upper', 'partition', 'rsplit', 'lstrip', 'rstrip',
                    'index', 'insert', 'clear', 'popitem', 'isdigit', 'find', 'count', 'splitlines'}

    def __init__(self, world):
        self.world = world

    NAMES = {'len', 'int', 'float', 'bool', 'str', 'repr', 'abs', 'round', 'min', 'max', 'sorted', 'tuple', 'list',
             'dict', 'set', 'isinstance', 'issubclass', 'type', 'hasattr', 'getattr', 'setattr', 'callable', 'zip',
             'enumerate', 'range', 'all', 'any', 'sum', 'bytes', 'object', 'id', 'frozenset', 'reversed', 'iter',
             'next', 'super', 'format', 'ord', 'chr', 'divmod', 'hash',
             # base64 (imported names in datatypes.py)
             'b64decode', 'b64encode',
             # contract language
             'is_int', 'is_bool', 'is_float', 'is_finite_float', 'is_nan', 'is_inf', 'is_str', 'is_bytes',
             'is_tuple', 'is_list', 'is_dict', 'is_set', 'is_none', 'is_enum', 'is_number', 'is_intlike',
             'implies', 'num_eq', 'same_num', 'is_ascii', 'py_eq', 'is_obj', 'forall_items', 'is_seq', 'keys_of',
             'is_canonical_b64', 'b64_text', 'is_instance_of', 'class_of', 'is_whole', 'realnum', 'is_ok_float',
             'fresh_from', 'is_fresh', 'same_object', 'is_valid_b64', 'b64_bytes', 'mk_enum',
             'seq_eq', 'is_wire', 'in_universe', 'on_grid', 'same_value', 'enum_owned', 'forall_int', 'forall_str', 'forall_obj', 'exists_int', 'has_dyn', 'is_prefix', 'line_removed', 'is_hashable', 'is_callable', 'unchanged', 'last', 'nth', 'held', 'dict_same_except', 'time_time', 'time_sleep', 'as_float', 'enum_has_name', 'enum_code', 'enum_has_code', 'enum_name'}

    def call(self, it, name, args, kwargs, node):
        m = getattr(self, 'bi_' + name, None)
        if m is None:
            raise Unsupported(f'builtin {name}')
        return m(it, args, kwargs, node)

    # ---------------------------------------------------------- contract language
    def _pred(self, f):
        def g(it, args, kwargs, node):
            return SV(V.BoolV(f(*[a.t for a in args])))
        return g

    def bi_is_int(self, it, a, k, n): return SV(V.BoolV(V.is_IntV(a[0].t)))
    def bi_is_bool(self, it, a, k, n): return SV(V.BoolV(V.is_BoolV(a[0].t)))
    def bi_is_float(self, it, a, k, n): return SV(V.BoolV(vals.is_floatlike(a[0].t)))
    def bi_is_finite_float(self, it, a, k, n): return SV(V.BoolV(V.is_FloatV(a[0].t)))
    def bi_is_ok_float(self, it, a, k, n):
        x = a[0].t
        return SV(V.BoolV(z3.And(V.is_FloatV(x), V.r(x) <= FMAXR, V.r(x) >= -FMAXR)))
    def bi_is_nan(self, it, a, k, n): return SV(V.BoolV(V.is_NaN(a[0].t)))
    def bi_is_inf(self, it, a, k, n): return SV(V.BoolV(O.isinf(a[0].t)))
    def bi_is_str(self, it, a, k, n): return SV(V.BoolV(V.is_StrV(a[0].t)))
    def bi_is_bytes(self, it, a, k, n): return SV(V.BoolV(V.is_BytesV(a[0].t)))
    def bi_is_tuple(self, it, a, k, n): return SV(V.BoolV(V.is_TupleV(a[0].t)))
    def bi_is_list(self, it, a, k, n): return SV(V.BoolV(V.is_ListV(a[0].t)))
    def bi_is_seq(self, it, a, k, n): return SV(V.BoolV(vals.is_seq(a[0].t)))
    def bi_is_dict(self, it, a, k, n): return SV(V.BoolV(V.is_DictV(a[0].t)))
    def bi_is_set(self, it, a, k, n): return SV(V.BoolV(V.is_SetV(a[0].t)))
    def bi_is_none(self, it, a, k, n): return SV(V.BoolV(V.is_NoneV(a[0].t)))
    def bi_is_enum(self, it, a, k, n): return SV(V.BoolV(V.is_EnumV(a[0].t)))
    def bi_is_obj(self, it, a, k, n): return SV(V.BoolV(V.is_ObjV(a[0].t)))
    def bi_is_number(self, it, a, k, n): return SV(V.BoolV(vals.is_number(a[0].t)))
    def bi_is_intlike(self, it, a, k, n): return SV(V.BoolV(O.intlike(a[0].t)))
    def bi_is_ascii(self, it, a, k, n): return SV(V.BoolV(O.IS_ASCII(V.s(a[0].t))))
    def bi_py_eq(self, it, a, k, n): return SV(V.BoolV(O.pyeq(a[0].t, a[1].t)))
    def bi_same_object(self, it, a, k, n): return SV(V.BoolV(a[0].t == a[1].t))

    def bi_is_whole(self, it, a, k, n):
        x = it.split_kind(a[0]).t
        if O.ctor(x) in ('IntV', 'BoolV', 'EnumV'):
            return SV(const(True))
        if O.ctor(x) not in (None, 'FloatV'):
            return SV(const(False))
        return SV(V.BoolV(z3.And(vals.is_finite(x), z3.ToReal(z3.ToInt(num(x))) == num(x))))

    def _forall(self, it, lam, sort, wrap, exists=False, want=None):
        """quantifier over all ints / strings (VC only: loop invariants and lemmas)"""
        if not (isinstance(lam, PV) and lam.kind == 'lambda'):
            raise Unsupported('forall_* needs a lambda')
        q = it.fresh('qv', sort)
        outcomes = self.world.loops.sub_explore(it, lambda: self.call_closure_with(it, lam, [SV(wrap(q))]))
        if any(o[0] == 'exc' for o in outcomes):
            raise Unsupported('quantified body may raise')
        b = z3.Const('b!qv%d' % it.counter, sort)
        disj = []
        for _, v, pcs, fresh in outcomes:
            fresh = [c for c in fresh if not c.eq(q)]
            if fresh:
                raise Unsupported('quantified body introduces fresh values')
            terms = [z3.substitute(t, (q, b)) for t in pcs + [vals.truthy(v.t)]]
            disj.append(z3.And(*terms))
        body = z3.Or(*disj) if disj else z3.BoolVal(False)
        if exists:
            return SV(V.BoolV(z3.Exists([b], body)))
        # the quantifier often has no usable trigger: add its instances at the input terms of that sort
        insts = []
        want = want or ('IntV' if sort == IntS else 'StrV')
        for t in it.inputs.values():
            if t.sort() != Val:
                continue
            t = it.refine(t)
            if O.ctor(t) == want:
                insts.append(z3.substitute(body, (b, t.arg(0))))
        return SV(V.BoolV(z3.And(z3.ForAll([b], body), *insts)))

    def call_closure_with(self, it, lam, args):
        return self.world.calls.call_closure(it, lam, args, {})

    def bi_forall_int(self, it, a, k, n):
        return self._forall(it, a[0], IntS, V.IntV)

    def bi_forall_obj(self, it, a, k, n):
        return self._forall(it, a[0], IntS, V.ObjV, want='ObjV')

    def bi_forall_str(self, it, a, k, n):
        return self._forall(it, a[0], StrS, V.StrV)

    def bi_exists_int(self, it, a, k, n):
        return self._forall(it, a[0], IntS, V.IntV, exists=True)

    def bi_time_time(self, it, a, k, n):
        """time.time(): some non-negative float, never earlier than the previous reading"""
        t = it.fresh('now', z3.RealSort())
        prev = it.ghost.get('clock!')
        it.assume(t >= (prev if prev is not None else 0))
        it.assume(t <= vals.FMAXR)
        it.ghost['clock!'] = t
        return SV(V.FloatV(t))

    def bi_time_sleep(self, it, a, k, n):
        if 'slept' in self.world.ghost_names:
            seq = self.world.ghost_seq(it, 'slept')
            it.ghost['slept'] = z3.Concat(seq, z3.Unit(a[0].t))
        return SV(V.NoneV)

    def bi_dict_same_except(self, it, a, k, n):
        """the two dicts / sets agree on every key other than the given ones (frame of a keyed update)"""
        d1, d0 = it.refine(it.split_kind(a[0]).t), it.refine(it.split_kind(a[1]).t)
        kx = z3.String('k!dse')
        excl = []
        for x in a[2:]:
            xt = it.split_kind(x).t
            it.assume_axiom(vals.key_axiom(xt))
            excl.append(kx != vals.ks(xt))
        guard = z3.And(*excl) if excl else z3.BoolVal(True)
        if O.ctor(d1) == 'SetV' and O.ctor(d0) == 'SetV':
            body = z3.Select(d1.arg(0), kx) == z3.Select(d0.arg(0), kx)
        else:
            body = z3.And(z3.Select(V.dhas(d1), kx) == z3.Select(V.dhas(d0), kx),
                          z3.Implies(z3.Select(V.dhas(d0), kx), z3.Select(V.dmap(d1), kx) == z3.Select(V.dmap(d0), kx)))
        return SV(V.BoolV(z3.ForAll([kx], z3.Implies(guard, body))))

    def bi_held(self, it, a, k, n):
        """the lock is held by the executing thread at this point (ghost set of held locks)"""
        return SV(V.BoolV(z3.Or(*[l == a[0].t for l in it.locks]) if it.locks else z3.BoolVal(False)))

    def bi_last(self, it, a, k, n):
        """last entry of a ghost log (total: unspecified for an empty log)"""
        seq = vals.seqitems(a[0].t)
        el = simp(seq[z3.Length(seq) - 1])
        return SV(el, O._elem_type(a[0].ty))

    def bi_nth(self, it, a, k, n):
        """component of a ghost log record (total, no bounds check)"""
        j = simp(O.ival(a[1].t))
        el = simp(V.titems(a[0].t)[j])
        ty = None
        if len(a) > 2:
            ty = self.world.dynattr.const_name(a[2])      # declared kind of the component, e.g. 'tuple'
            if ty:
                self.world.element_kind(it, el, ty)
        return SV(el, ty)

    def bi_unchanged(self, it, a, k, n):
        """frame: the heap field has the same content for every object as at entry (postconditions only)"""
        fname = self.world.dynattr.const_name(a[0])
        old = it.env.get('old!heap')
        if fname is None or old is None:
            raise Unsupported('unchanged() needs a constant field name inside a postcondition')
        cur = it.heap_arr(fname)
        before = old[0].get(fname, z3.Const(f'H0!{fname}', z3.ArraySort(IntS, Val)))
        return SV(V.BoolV(cur == before))

    def bi_has_dyn(self, it, a, k, n):
        """the object has an attribute of this (computed) name"""
        d = self.world.dynattr
        sname = V.s(a[1].t)
        return SV(V.BoolV(z3.Select(z3.Select(d.has_arr(it), V.oid(a[0].t)), sname)))

    def bi_is_prefix(self, it, a, k, n):
        return SV(V.BoolV(z3.PrefixOf(vals.seqitems(a[0].t), vals.seqitems(a[1].t))))

    def bi_is_hashable(self, it, a, k, n):
        return SV(V.BoolV(O._hashable(a[0].t)))

    def bi_line_removed(self, it, a, k, n):
        """line_removed(before, after): exactly the first line of the bytes `before` (up to and including the
        first newline) is missing in `after`"""
        x, y = it.refine(a[0].t), it.refine(a[1].t)
        bx, by = V.by(x), V.by(y)
        m = z3.Length(bx) - z3.Length(by) - 1
        head = z3.Extract(bx, z3.IntVal(0), m)
        nl = z3.Unit(z3.IntVal(10))
        return SV(V.BoolV(z3.And(V.is_BytesV(x), V.is_BytesV(y), m >= 0, bx == z3.Concat(head, nl, by),
                                 z3.Not(z3.Contains(head, nl)))))

    def bi_enum_owned(self, it, a, k, n):
        """the member object belongs to this Enum object"""
        return SV(V.BoolV(z3.And(V.is_EnumV(a[1].t), V.eid(a[1].t) == V.oid(a[0].t))))

    def bi_same_value(self, it, a, k, n):
        """identical python value: same kind, structurally equal (sequences by extensionality)"""
        x, y = a[0].t, a[1].t
        cx, cy = O.ctor(it.refine(x)), O.ctor(it.refine(y))
        if cx == cy and cx in ('TupleV', 'ListV'):
            self._seq_ext(it, it.refine(x).arg(0), it.refine(y).arg(0))
        return SV(V.BoolV(x == y))

    def bi_on_grid(self, it, a, k, n):
        q = self.world.ops.binop(it, ast.Div(), a[0], a[1])
        return self.bi_is_whole(it, [q], k, n)

    def bi_realnum(self, it, a, k, n):
        """the real number denoted by a finite number, as a float value (spec only)"""
        return SV(V.FloatV(num(a[0].t)))

    def bi_implies(self, it, a, k, n):
        return SV(V.BoolV(z3.Implies(vals.truthy(a[0].t), vals.truthy(a[1].t))))

    def bi_num_eq(self, it, a, k, n):
        x, y = a[0].t, a[1].t
        return SV(V.BoolV(z3.And(vals.is_finite(x), vals.is_finite(y), num(x) == num(y))))

    def bi_is_valid_b64(self, it, a, k, n):
        return SV(V.BoolV(z3.And(V.is_StrV(a[0].t), B64CANON(V.s(a[0].t)))))

    def bi_b64_bytes(self, it, a, k, n):
        return SV(V.BytesV(B64DEC(V.s(a[0].t))))

    def bi_mk_enum(self, it, a, k, n):
        return SV(V.EnumV(V.oid(a[0].t), V.s(a[1].t), O.ival(a[2].t)))

    # Enum view (assumed, validated by the bounded tier): names and codes of an Enum are in bijection
    # (Enum.__init__ stores each member under both keys); the instance of the bijection for the
    # queried name / code is assumed at each use instead of a quantified invariant
    def _enum_ufs(self):
        w = self.world
        return (w.uf('uf!enum_has_name', [IntS, StrS, BoolS]), w.uf('uf!enum_code', [IntS, StrS, IntS]),
                w.uf('uf!enum_has_code', [IntS, IntS, BoolS]), w.uf('uf!enum_name', [IntS, IntS, StrS]))

    def _enum_name_inst(self, it, e, sx):
        hn, cd, hc, nm = self._enum_ufs()
        it.assume_axiom(z3.Implies(hn(e, sx), z3.And(hc(e, cd(e, sx)), nm(e, cd(e, sx)) == sx)))

    def _enum_code_inst(self, it, e, ix):
        hn, cd, hc, nm = self._enum_ufs()
        it.assume_axiom(z3.Implies(hc(e, ix), z3.And(hn(e, nm(e, ix)), cd(e, nm(e, ix)) == ix)))

    def bi_enum_has_name(self, it, a, k, n):
        e, sx = V.oid(a[0].t), V.s(a[1].t)
        self._enum_name_inst(it, e, sx)
        return SV(V.BoolV(z3.And(V.is_StrV(a[1].t), self._enum_ufs()[0](e, sx))))

    def bi_enum_code(self, it, a, k, n):
        e, sx = V.oid(a[0].t), V.s(a[1].t)
        self._enum_name_inst(it, e, sx)
        return SV(V.IntV(self._enum_ufs()[1](e, sx)))

    def bi_enum_has_code(self, it, a, k, n):
        e, ix = V.oid(a[0].t), O.ival(a[1].t)
        self._enum_code_inst(it, e, ix)
        return SV(V.BoolV(self._enum_ufs()[2](e, ix)))

    def bi_enum_name(self, it, a, k, n):
        e, ix = V.oid(a[0].t), O.ival(a[1].t)
        self._enum_code_inst(it, e, ix)
        return SV(V.StrV(self._enum_ufs()[3](e, ix)))

    def _seq_ext(self, it, sx, sy):
        """extensionality instance for two sequences through a skolem difference index (sound axiom:
        if the lengths agree and the elements at diff(sx, sy) agree, the sequences are equal)"""
        DIFF = self.world.uf('seqdiff!', [vals.SeqVal, vals.SeqVal, IntS])
        d = DIFF(sx, sy)
        it.assume_axiom(z3.Implies(z3.And(z3.Length(sx) == z3.Length(sy),
                                          z3.Implies(z3.And(0 <= d, d < z3.Length(sx)), sx[d] == sy[d])), sx == sy))

    def bi_seq_eq(self, it, a, k, n):
        x, y = it.split_kind(a[0]).t, it.split_kind(a[1]).t
        cx, cy = O.ctor(x), O.ctor(y)
        if cx == cy and cx in ('TupleV', 'ListV'):
            self._seq_ext(it, x.arg(0), y.arg(0))
            return SV(V.BoolV(x.arg(0) == y.arg(0)))
        return SV(V.BoolV(z3.BoolVal(False) if cx != cy else x == y))

    def bi_in_universe(self, it, a, k, n):
        """the stated value universe (top level): no sets, no arbitrary objects / classes"""
        t = a[0].t
        return SV(V.BoolV(z3.Not(z3.Or(V.is_SetV(t), V.is_ObjV(t), V.is_ClsV(t)))))

    def bi_is_wire(self, it, a, k, n):
        """a value json.loads can produce, at every depth (unfolded per level once the kind is known)"""
        t = it.refine(a[0].t)
        W = self.world.uf('is_wire!', [Val, BoolS])
        top = z3.Or(V.is_NoneV(t), V.is_BoolV(t), V.is_IntV(t), vals.is_floatlike(t), V.is_StrV(t),
                    V.is_ListV(t), V.is_DictV(t))
        it.assume_axiom(z3.Implies(W(t), top))
        c = O.ctor(t)
        if c in ('ListV', 'DictV'):
            self.wire_unfold(it, t)
        elif c is None:
            it.wire_terms.append(t)
        elif c in ('NoneV', 'BoolV', 'IntV', 'FloatV', 'PInf', 'NInf', 'NaN', 'StrV'):
            return SV(const(True))
        return SV(V.BoolV(W(t)))

    def wire_unfold(self, it, t):
        W = self.world.uf('is_wire!', [Val, BoolS])
        i = z3.Int('i!wire')
        kx = z3.String('k!wire')
        if O.ctor(t) == 'ListV':
            it.assume_axiom(W(t) == z3.ForAll([i], z3.Implies(z3.And(0 <= i, i < z3.Length(t.arg(0))), W(t.arg(0)[i]))))
        elif O.ctor(t) == 'DictV':
            it.assume_axiom(W(t) == z3.ForAll([kx], z3.Implies(z3.Select(t.arg(1), kx), W(z3.Select(t.arg(2), kx)))))

    def bi_b64_text(self, it, a, k, n):
        return SV(V.StrV(B64ENC(V.by(a[0].t))))

    def bi_class_of(self, it, a, k, n):
        return SV(V.ClsV(CLSOF(V.oid(a[0].t))))

    def bi_is_instance_of(self, it, a, k, n):
        return self.bi_isinstance(it, a, k, n)

    def bi_is_fresh(self, it, a, k, n):
        """object allocated during the call under verification"""
        mark = it.ghost.get('alloc!entry')
        if mark is None:
            raise Unsupported('is_fresh outside a postcondition')
        return SV(V.BoolV(z3.And(V.is_ObjV(a[0].t), V.oid(a[0].t) > mark)))

    # ------------------------------------------------------------- python builtins
    def bi_len(self, it, a, k, n):
        x = a[0]
        if isinstance(x, PV):
            raise Unsupported('len of function value')
        x = it.split_kind(x)
        t = x.t
        has = z3.Or(V.is_StrV(t), V.is_BytesV(t), V.is_TupleV(t), V.is_ListV(t), V.is_DictV(t))
        kk = it.choose([has, V.is_SetV(t), z3.Not(z3.Or(has, V.is_SetV(t)))], 'len')
        if kk == 1:
            raise Unsupported('len of a set')
        if kk == 2:
            if it.feasible(V.is_ObjV(t)):
                if x.ty in self.world.classes and self.world.defining_class(x.ty, '__len__'):
                    return self.world.calls.call_method(it, x, x.ty, '__len__', [], {}, n)
                raise Unsupported('len of object')
            it.raise_('TypeError')
        ln = z3.If(V.is_StrV(t), z3.Length(V.s(t)), z3.If(V.is_BytesV(t), z3.Length(V.by(t)),
                   z3.If(V.is_TupleV(t), z3.Length(V.titems(t)),
                         z3.If(V.is_ListV(t), z3.Length(V.litems(t)), z3.Length(V.dkeys(t))))))
        return SV(V.IntV(simp(ln)))

    def bi_int(self, it, a, k, n):
        if not a:
            return SV(const(0))
        t = it.split_kind(a[0]).t
        fin = z3.Or(V.is_BoolV(t), V.is_IntV(t), V.is_FloatV(t), V.is_EnumV(t))
        strok = z3.And(V.is_StrV(t), O.STR2INT_OK(V.s(t)))
        kk = it.choose([fin, O.isinf(t), V.is_NaN(t), strok, z3.And(V.is_StrV(t), z3.Not(strok)),
                        z3.Not(z3.Or(fin, O.isinf(t), V.is_NaN(t), V.is_StrV(t)))], 'int()')
        if kk == 1:
            it.raise_('OverflowError')
        if kk in (2, 4):
            it.raise_('ValueError')
        if kk == 3:
            return SV(V.IntV(O.STR2INT(V.s(t))))
        if kk == 5:
            if it.feasible(V.is_BytesV(t)):
                raise Unsupported('int(bytes)')
            it.raise_('TypeError')
        return SV(simp(V.IntV(z3.If(V.is_FloatV(t), O.trunc(V.r(t)), O.ival(t)))))

    def bi_float(self, it, a, k, n):
        if not a:
            return SV(const(0.0))
        t = it.split_kind(a[0]).t
        ts = simp(t)
        if vals.tag_of(ts) == 'StrV' and z3.is_string_value(simp(V.s(ts))):
            # float('<literal>'): decided by CPython's own parser
            try:
                return SV(const(float(simp(V.s(ts)).as_string())))
            except ValueError:
                it.raise_('ValueError')
        numk = vals.is_numlike(t)
        strok = z3.And(V.is_StrV(t), O.STR2FLOAT_OK(V.s(t)))
        kk = it.choose([z3.And(numk, z3.Not(O.too_big(t))), z3.And(numk, O.too_big(t)), strok,
                        z3.And(V.is_StrV(t), z3.Not(strok)), z3.Not(z3.Or(numk, V.is_StrV(t)))], 'float()')
        if kk == 1:
            it.raise_('OverflowError')
        if kk == 2:
            r = O.STR2FLOAT(V.s(t))
            it.assume(vals.is_floatlike(r))
            return SV(r)
        if kk == 3:
            it.raise_('ValueError')
        if kk == 4:
            it.raise_('TypeError')
        return SV(simp(z3.If(z3.Or(O.isinf(t), V.is_NaN(t)), t, V.FloatV(O.fnum(it, t)))))

    def bi_as_float(self, it, a, k, n):
        """spec: the float nearest to a finite number (int -> float rounds beyond 2**53)"""
        t = it.split_kind(a[0]).t
        if O.ctor(t) in ('IntV', 'EnumV', 'BoolV'):
            return SV(V.FloatV(O.fnum(it, t)))
        return SV(t)

    def bi_bool(self, it, a, k, n):
        if not a:
            return SV(const(False))
        return SV(V.BoolV(self.world.ops.truthy(it, a[0])))

    def bi_str(self, it, a, k, n):
        if not a:
            return SV(const(''))
        t = a[0].t if isinstance(a[0], SV) else None
        if t is None:
            r = it.fresh('str', Val)
            it.assume(V.is_StrV(r))
            return SV(r)
        return SV(simp(z3.If(V.is_StrV(t), t, V.StrV(O.STR_OF(t)))))

    def bi_repr(self, it, a, k, n):
        return SV(V.StrV(O.REPR_OF(it.as_val(a[0]))))

    def bi_format(self, it, a, k, n):
        r = it.fresh('fmt', Val)
        it.assume(V.is_StrV(r))
        return SV(r)

    def bi_abs(self, it, a, k, n):
        t = it.split_kind(a[0]).t
        self.world.ops.outcome(it, [(z3.Not(vals.is_numlike(t)), 'TypeError'), (vals.is_numlike(t), None)], 'abs')
        return SV(simp(z3.If(O.intlike(t), V.IntV(z3.If(O.ival(t) < 0, -O.ival(t), O.ival(t))),
                             z3.If(O.isinf(t), V.PInf, z3.If(V.is_NaN(t), V.NaN,
                                   V.FloatV(z3.If(V.r(t) < 0, -V.r(t), V.r(t))))))))

    def bi_round(self, it, a, k, n):
        if len(a) > 1:
            raise Unsupported('round with digits')
        t = it.split_kind(a[0]).t
        fin = vals.is_finite(t)
        kk = it.choose([fin, O.isinf(t), V.is_NaN(t), z3.Not(vals.is_numlike(t))], 'round')
        if kk == 1:
            it.raise_('OverflowError')
        if kk == 2:
            it.raise_('ValueError')
        if kk == 3:
            it.raise_('TypeError')
        if O.ctor(t) == 'FloatV':
            # name the rounded integer: keeps later terms small
            nn = it.fresh('rnd', IntS)
            x = t.arg(0)
            half = z3.RealVal('1/2')
            d = x - z3.ToReal(nn)
            it.assume_axiom(z3.And(d <= half, d >= -half, z3.Implies(z3.Or(d == half, d == -half), nn % 2 == 0),
                                   z3.Implies(z3.ToReal(z3.ToInt(x)) == x, nn == z3.ToInt(x))))
            return SV(V.IntV(nn))
        return SV(simp(V.IntV(z3.If(V.is_FloatV(t), O.round_half_even(V.r(t)), O.ival(t)))))

    def _minmax(self, it, a, k, n, ismax):
        if 'key' in k or 'default' in k:
            raise Unsupported('min/max with key/default')
        if len(a) == 1:
            seq = self.world.loops.iter_seq(it, a[0])
            ln = simp(z3.Length(seq))
            if not z3.is_int_value(ln):
                raise Unsupported('min/max of sequence of unknown length')
            if ln.as_long() == 0:
                it.raise_('ValueError')
            items = [SV(simp(seq[j])) for j in range(ln.as_long())]
        else:
            items = list(a)
        cur = items[0]
        for x in items[1:]:
            # python: max keeps the first maximal element; min the first minimal
            c = self.world.ops.compare(it, ast.Gt() if ismax else ast.Lt(), x, cur)
            cur = SV(simp(z3.If(c, x.t, cur.t)))
        return cur

    def bi_min(self, it, a, k, n): return self._minmax(it, a, k, n, False)
    def bi_max(self, it, a, k, n): return self._minmax(it, a, k, n, True)

    def bi_sorted(self, it, a, k, n):
        if k:
            raise Unsupported('sorted with key')
        if isinstance(a[0], PV) and a[0].kind == 'genexp':
            a = [self.world.loops.comprehension(it, a[0].data[0], 'list', a[0].data[1])]
        seq = self.world.loops.iter_seq(it, a[0])
        ln = simp(z3.Length(seq))
        if not z3.is_int_value(ln):
            # symbolic length: strings only - an ordered permutation of the input
            i, j = z3.Int('i!srt'), z3.Int('j!srt')
            if not (isinstance(a[0], SV) and O._elem_type(a[0].ty) == 'str') and \
                    it.feasible(z3.Exists([i], z3.And(0 <= i, i < z3.Length(seq), z3.Not(V.is_StrV(seq[i]))))):
                raise Unsupported('sorted of a sequence of unknown length whose elements are not all strings')
            r = it.fresh('sorted', vals.SeqVal)
            x = z3.Const('x!srt', Val)
            it.assume_axiom(z3.And(
                z3.Length(r) == z3.Length(seq),
                z3.ForAll([i], z3.Implies(z3.And(0 <= i, i < z3.Length(r)), V.is_StrV(r[i]))),
                z3.ForAll([i, j], z3.Implies(z3.And(0 <= i, i < j, j < z3.Length(r)), V.s(r[i]) <= V.s(r[j]))),
                z3.ForAll([x], z3.Contains(r, z3.Unit(x)) == z3.Contains(seq, z3.Unit(x)))))
            return SV(V.ListV(r), 'list:str')
        if ln.as_long() > 3:
            raise Unsupported('sorted of long/unknown sequence')
        items = [simp(seq[j]) for j in range(ln.as_long())]
        for x in items:
            self.world.ops.outcome(it, [(z3.Not(vals.is_numlike(x)), None), (vals.is_numlike(x), None)], 'sorted kind')
            if it.feasible(z3.Not(vals.is_numlike(x))):
                raise Unsupported('sorted of non-numbers')
        items = [it.split_kind(SV(x)).t for x in items]
        if all(O.nk(x) is not None and O.nk(x)[0] in ('int', 'real', 'pinf', 'ninf') for x in items):
            # no NaN: a sorting network of compare-exchange steps (stable: keeps the earlier of two equals first)
            cur = list(items)

            def cx(i, j):
                fo = O.fast_order(cur[j], cur[i])
                lt = fo[0] if fo is not None else O.ext_lt(cur[j], cur[i])
                cur[i], cur[j] = simp(z3.If(lt, cur[j], cur[i])), simp(z3.If(lt, cur[i], cur[j]))
            if len(cur) == 2:
                cx(0, 1)
            elif len(cur) == 3:
                cx(0, 1); cx(1, 2); cx(0, 1)
            return SV(V.ListV(vals.valseq(cur)))
        # result is a permutation; ordered when no NaN is present (with NaN: any permutation)
        res = [it.fresh('srt', Val) for _ in items]
        perms = _perms(len(items))
        it.assume(z3.Or(*[z3.And(*[res[j] == items[p[j]] for j in range(len(items))]) for p in perms]))
        anynan = z3.Or(*[V.is_NaN(x) for x in items]) if items else z3.BoolVal(False)
        ordered = z3.And(*[z3.Not(O.ext_lt(res[j + 1], res[j])) for j in range(len(items) - 1)]) if len(items) > 1 else z3.BoolVal(True)
        it.assume(z3.Implies(z3.Not(anynan), ordered))
        return SV(V.ListV(vals.valseq(res)))

    def bi_tuple(self, it, a, k, n):
        if not a:
            return SV(const(()))
        if isinstance(a[0], PV) and a[0].kind == 'genexp':
            return self.world.loops.comprehension(it, a[0].data[0], 'tuple', a[0].data[1])
        seq = self.world.loops.iter_seq(it, a[0])
        return SV(V.TupleV(seq), _seqty('tuple', a[0]))

    def bi_list(self, it, a, k, n):
        if not a:
            return SV(const([]))
        if isinstance(a[0], PV) and a[0].kind == 'genexp':
            return self.world.loops.comprehension(it, a[0].data[0], 'list', a[0].data[1])
        seq = self.world.loops.iter_seq(it, a[0])
        return SV(V.ListV(seq), _seqty('list', a[0]))

    def bi_set(self, it, a, k, n):
        if not a:
            return SV(V.SetV(vals.EMPTY_HAS))
        if isinstance(a[0], PV) and a[0].kind == 'genexp':
            return self.world.loops.comprehension(it, a[0].data[0], 'set', a[0].data[1])
        t = a[0].t
        kk = it.choose([V.is_DictV(t), V.is_SetV(t), z3.Not(z3.Or(V.is_DictV(t), V.is_SetV(t)))], 'set()')
        if kk == 0:
            return SV(V.SetV(V.dhas(t)))
        if kk == 1:
            return SV(t)
        seq = self.world.loops.iter_seq(it, a[0])
        # set of a sequence of strings
        i = z3.Int('i!set')
        if it.feasible(z3.Exists([i], z3.And(0 <= i, i < z3.Length(seq), z3.Not(V.is_StrV(seq[i]))))):
            # elements that are not strings: unhashable -> TypeError, else outside A4
            ln = simp(z3.Length(seq))
            if z3.is_int_value(ln):
                for j in range(ln.as_long()):
                    x = simp(seq[j])
                    self.world.ops.outcome(it, [(z3.Not(O._hashable(x)), 'TypeError'), (O._hashable(x), None)], 'set elem')
            raise Unsupported('set of non-string elements (A4)')
        r = it.fresh('set', z3.ArraySort(StrS, BoolS))
        kx = z3.String('k!set')
        it.assume(z3.ForAll([i], z3.Implies(z3.And(0 <= i, i < z3.Length(seq)), z3.Select(r, V.s(seq[i])))))
        it.assume(z3.ForAll([kx], z3.Implies(z3.Select(r, kx), z3.Contains(seq, z3.Unit(V.StrV(kx))))))
        return SV(V.SetV(r))

    bi_frozenset = bi_set

    def bi_dict(self, it, a, k, n):
        if not a:
            return SV(vals.mkdict([(kk, it.as_val(v)) for kk, v in k.items()]))
        if k:
            raise Unsupported('dict(x, **kw)')
        if isinstance(a[0], PV) and a[0].kind == 'genexp':
            return self.world.loops.comprehension(it, a[0].data[0], 'dictpairs', a[0].data[1])
        t = a[0].t
        isd = V.is_DictV(t)
        kk = it.choose([isd, z3.Not(isd)], 'dict()')
        if kk == 0:
            return SV(t, a[0].ty if a[0].ty != 'ImmutableDict' else None)
        return self.world.loops.dict_from_pairs(it, a[0])

    def bi_bytes(self, it, a, k, n):
        raise Unsupported('bytes()')

    def bi_isinstance(self, it, a, k, n):
        x, tspec = a[0], a[1]
        names = self._typenames(it, tspec)
        if isinstance(x, PV):
            res = any(nm in ('object',) for nm in names) or (x.kind in ('closure', 'lambda', 'func', 'bound') and 'callable' in names)
            if x.kind == 'class':
                res = 'type' in names
            return SV(const(bool(res)))
        return SV(V.BoolV(simp(z3.Or(*[self.isinst(it, x, nm) for nm in names]))))

    def _typenames(self, it, tspec):
        if isinstance(tspec, PV) and (tspec.kind == 'class' or (tspec.kind == 'builtin' and tspec.data in BUILTIN_TYPES)):
            return [tspec.data]
        if isinstance(tspec, SV):
            tt = simp(tspec.t)
            if vals.tag_of(tt) == 'TupleV':
                ln = simp(z3.Length(V.titems(tt)))
                out = []
                for j in range(ln.as_long()):
                    c = simp(V.titems(tt)[j])
                    if vals.tag_of(c) != 'ClsV':
                        raise Unsupported('isinstance with computed classes')
                    out.append(it.cids.names[simp(V.cid(c)).as_long()])
                return out
            if vals.tag_of(tt) == 'ClsV':
                return [it.cids.names[simp(V.cid(tt)).as_long()]]
        raise Unsupported(f'isinstance type spec {tspec}')

    def isinst(self, it, x, name):
        t = x.t
        m = {'int': z3.Or(V.is_IntV(t), V.is_BoolV(t)), 'bool': V.is_BoolV(t), 'float': vals.is_floatlike(t),
             'str': V.is_StrV(t), 'bytes': V.is_BytesV(t), 'tuple': V.is_TupleV(t), 'list': V.is_ListV(t),
             'dict': V.is_DictV(t), 'set': V.is_SetV(t), 'frozenset': z3.BoolVal(False), 'object': z3.BoolVal(True),
             'NoneType': V.is_NoneV(t), 'EnumMember': V.is_EnumV(t), 'type': V.is_ClsV(t),
             'Mapping': V.is_DictV(t), 'ImmutableDict': z3.And(V.is_DictV(t), z3.BoolVal(x.ty == 'ImmutableDict'))}
        if name in m:
            return m[name]
        if name in it.cids.ids:
            return z3.And(V.is_ObjV(t), it.cids.sub(CLSOF(V.oid(t)), name))
        raise Unsupported(f'isinstance against {name}')

    def bi_issubclass(self, it, a, k, n):
        c = a[0]
        names = self._typenames(it, a[1])
        if isinstance(c, PV) and c.kind == 'class':
            return SV(const(any(it.cids.issub(c.data, nm) for nm in names)))
        self.world.ops.outcome(it, [(z3.Not(V.is_ClsV(c.t)), 'TypeError'), (V.is_ClsV(c.t), None)], 'issubclass')
        return SV(V.BoolV(z3.Or(*[it.cids.sub(V.cid(c.t), nm) for nm in names])))

    def bi_type(self, it, a, k, n):
        if len(a) != 1:
            raise Unsupported('type() with 3 arguments')
        x = a[0]
        if x.ty in self.world.classes and not self.world.classes[x.ty].get('abstract'):
            return PV('class', x.ty)
        t = x.t
        if not it.feasible(z3.Not(V.is_ObjV(t))):
            return SV(V.ClsV(CLSOF(V.oid(t))))
        raise Unsupported('type() of data value')

    def bi_callable(self, it, a, k, n):
        x = a[0]
        if isinstance(x, PV):
            return SV(const(x.kind in ('closure', 'lambda', 'func', 'bound', 'class', 'builtin', 'abstract', 'unbound')))
        if x.ty and (x.ty.startswith('callable:') or (x.ty in self.world.classes and self.world.defining_class(x.ty, '__call__'))):
            return SV(const(True))
        if not it.feasible(V.is_ObjV(x.t)):
            return SV(const(False))
        # an object of unknown class: callability is an uninterpreted attribute of the object
        CALLABLE = self.world.uf('callable!', [IntS, BoolS])
        for sid in SINGLETON_IDS:
            it.assume_axiom(z3.Not(CALLABLE(z3.IntVal(sid))))
        return SV(V.BoolV(z3.And(V.is_ObjV(x.t), CALLABLE(V.oid(x.t)))))

    def bi_is_callable(self, it, a, k, n):
        return self.bi_callable(it, a, k, n)

    def bi_hasattr(self, it, a, k, n):
        return self.world.dynattr.hasattr(it, a[0], a[1])

    def bi_getattr(self, it, a, k, n):
        return self.world.dynattr.getattr(it, a[0], a[1], a[2] if len(a) > 2 else None)

    def bi_setattr(self, it, a, k, n):
        return self.world.dynattr.setattr(it, a[0], a[1], a[2])

    def bi_zip(self, it, a, k, n):
        return PV('zip', list(a))

    def bi_enumerate(self, it, a, k, n):
        return PV('enumerate', list(a))

    def bi_reversed(self, it, a, k, n):
        return PV('reversed', list(a))

    def bi_range(self, it, a, k, n):
        return PV('range', list(a))

    def bi_all(self, it, a, k, n):
        return self.world.loops.all_any(it, a[0], True)

    def bi_any(self, it, a, k, n):
        return self.world.loops.all_any(it, a[0], False)

    def bi_id(self, it, a, k, n):
        return SV(V.IntV(V.oid(a[0].t)))

    def bi_b64encode(self, it, a, k, n):
        t = a[0].t
        self.world.ops.outcome(it, [(z3.Not(V.is_BytesV(t)), 'TypeError'), (V.is_BytesV(t), None)], 'b64encode')
        r = it.fresh('b64', Val)
        # b64encode returns bytes; .decode('ascii') of it is modelled by keeping the text in a bytes-tagged carrier
        it.assume(r == V.StrV(B64ENC(V.by(t))))
        # axiom X1: the encoding is valid text and decodes to the bytes it encodes
        it.assume_axiom(z3.And(B64CANON(B64ENC(V.by(t))), B64DEC(B64ENC(V.by(t))) == V.by(t)))
        return SV(r, 'b64bytes')

    def bi_b64decode(self, it, a, k, n):
        t = a[0].t
        strict = 'validate' in k and not it.feasible(z3.Not(self.world.ops.truthy(it, k['validate'])))
        isstr = z3.Or(V.is_StrV(t))
        if strict:
            ok = z3.And(isstr, B64CANON(V.s(t)))
            kk = it.choose([ok, z3.And(isstr, z3.Not(ok)), z3.Not(isstr)], 'b64decode strict')
            if kk == 1:
                it.raise_('binascii.Error')
            if kk == 2:
                if it.feasible(V.is_BytesV(t)):
                    raise Unsupported('b64decode of bytes')
                it.raise_('TypeError')
            return SV(V.BytesV(B64DEC(V.s(t))))
        ok = z3.And(isstr, B64LENIENT_OK(V.s(t)))
        kk = it.choose([ok, z3.And(isstr, z3.Not(ok)), z3.Not(isstr)], 'b64decode lenient')
        if kk == 1:
            it.raise_('binascii.Error')
        if kk == 2:
            if it.feasible(V.is_BytesV(t)):
                raise Unsupported('b64decode of bytes')
            it.raise_('TypeError')
        # lenient decoding: canonical text decodes exactly; other accepted text decodes to *some* bytes
        it.assume(z3.Implies(B64CANON(V.s(t)), B64LENIENT(V.s(t)) == B64DEC(V.s(t))))
        return SV(V.BytesV(B64LENIENT(V.s(t))))

    # --------------------------------------------------- methods of data values
    def method(self, it, obj, name, args, kwargs, node, write_back):
        w = self.world
        if isinstance(obj, SV) and obj.ty is None and vals.tag_of(it.refine(obj.t)) in (None, 'ObjV'):
            # an object whose class is fixed by the path condition: its own method (e.g. datatype.copy()), not the container method
            for cname, info in w.classes.items():
                if (f'iface::{cname}.{name}' in w.contracts or f'{cname}.{name}' in w.contracts) \
                        and not it.feasible(z3.Not(z3.And(V.is_ObjV(obj.t), it.cids.sub(CLSOF(V.oid(obj.t)), cname)))):
                    return w.calls.call_method(it, SV(it.refine(obj.t), cname, obj.src), cname, name, args, kwargs, node)
        m = getattr(self, 'dm_' + name, None)
        if m is None:
            raise Unsupported(f'method .{name} of data value')
        res = m(it, obj, args, kwargs)
        if name in ('get', 'setdefault') and write_back is not None and it.mode == 'code' and args:
            # the returned element is an alias of the slot it was taken from (matters when it is mutated later)
            from .engine import _Lit
            slot = ast.Subscript(value=write_back, slice=_Lit(args[0]), ctx=ast.Load())
            ast.copy_location(slot, write_back)
            slot.lineno = getattr(write_back, 'lineno', 0)
            if isinstance(res, tuple) and isinstance(res[0], SV):
                res = (SV(res[0].t, res[0].ty, slot), res[1])
            elif isinstance(res, SV) and not (len(args) > 1 and res is args[1]):
                res = SV(res.t, res.ty, slot)
        if isinstance(res, tuple):
            result, newobj = res
            if isinstance(write_back, ast.Call):
                write_back = None       # the receiver is itself a call result: only the slot it aliases (if any) is updated
            if write_back is None and obj.src is None:
                if name in ('get', 'setdefault', 'pop', 'popitem'):
                    raise Unsupported(f'mutating method .{name} on temporary')
                return result           # mutation of a temporary container: no observable effect
            if write_back is not None:
                it.assign(write_back, newobj, wb=True)
            if obj.src is not None and obj.src is not write_back:
                it.assign(obj.src, newobj, wb=True)
            return result
        return res

    def _need(self, it, obj, pred, what):
        t = obj.t
        kk = it.choose([pred(t), z3.Not(pred(t))], what)
        if kk == 1:
            if it.feasible(V.is_ObjV(t)):
                raise Unsupported(f'{what} on object')
            it.raise_('AttributeError')

    def dm_items(self, it, obj, a, k):
        self._need(it, obj, V.is_DictV, '.items()')
        return PV('dictitems', obj)

    def dm_keys(self, it, obj, a, k):
        self._need(it, obj, V.is_DictV, '.keys()')
        return SV(V.ListV(V.dkeys(obj.t)))

    def dm_values(self, it, obj, a, k):
        self._need(it, obj, V.is_DictV, '.values()')
        return PV('dictvalues', obj)

    def dm_get(self, it, obj, a, k):
        self._need(it, obj, V.is_DictV, '.get()')
        t, key = obj.t, (it.split_kind(a[0]).t if O.nonstring_keys(it, obj) else it.refine(a[0].t))
        default = it.as_val(a[1]) if len(a) > 1 else V.NoneV
        if obj.ty and obj.ty.startswith('enumdict'):
            raise Unsupported('Enum.get')
        self.world.ops.outcome(it, [(z3.Not(O._hashable(key)), 'TypeError'), (O._hashable(key), None)], 'get key')
        if O.ctor(it.refine(key)) in ('StrV', 'ObjV'):
            self.world.lazy_instantiate(it, it.refine(t), vals.ks(it.refine(key)))
        it.assume_axiom(vals.key_axiom(key))
        present = z3.And(vals.is_key(key), z3.Select(V.dhas(t), vals.ks(key)))
        # fork on presence: later terms stay free of if-then-else chains
        if it.branch(present, 'dict.get'):
            el = simp(z3.Select(V.dmap(t), vals.ks(it.refine(key))))
            self.world.element_kind(it, el, O._elem_type(obj.ty))
            return SV(el, O._elem_type(obj.ty))
        return SV(default, None)

    def dm_copy(self, it, obj, a, k):
        t = obj.t
        kk = it.choose([z3.Or(V.is_DictV(t), V.is_ListV(t), V.is_SetV(t)), z3.Not(z3.Or(V.is_DictV(t), V.is_ListV(t), V.is_SetV(t)))], '.copy()')
        if kk == 1:
            if it.feasible(V.is_ObjV(t)):
                raise Unsupported('.copy() of object')
            it.raise_('AttributeError')
        return SV(t, obj.ty)

    def dm_pop(self, it, obj, a, k):
        t = obj.t
        kk = it.choose([V.is_DictV(t), V.is_ListV(t), z3.Not(z3.Or(V.is_DictV(t), V.is_ListV(t)))], '.pop()')
        if kk == 2:
            if it.feasible(V.is_ObjV(t)):
                raise Unsupported('.pop() of object')
            it.raise_('AttributeError')
        if kk == 1:
            items = V.litems(t)
            n = z3.Length(items)
            if a:
                raise Unsupported('list.pop(i)')
            self.world.ops.outcome(it, [(n == 0, 'IndexError'), (n > 0, None)], 'pop')
            return SV(simp(items[n - 1]), O._elem_type(obj.ty)), SV(V.ListV(z3.SubSeq(items, 0, n - 1)), obj.ty, obj.src)
        if obj.ty == 'ImmutableDict':
            it.raise_('TypeError')
        key = it.refine(a[0].t)
        it.assume_axiom(vals.key_axiom(key))
        present = z3.And(vals.is_key(key), z3.Select(V.dhas(t), vals.ks(key)))
        if len(a) > 1:
            kk2 = it.choose([present, z3.Not(present)], 'pop key')
            if kk2 == 1:
                return a[1], SV(t, obj.ty, obj.src)
        else:
            self.world.ops.outcome(it, [(z3.Not(present), 'KeyError'), (present, None)], 'pop key')
        val = simp(z3.Select(V.dmap(t), vals.ks(key)))
        return SV(val, O._elem_type(obj.ty)), SV(O.dict_remove(it, t, vals.ks(key)), obj.ty, obj.src)

    def dm_clear(self, it, obj, a, k):
        t = obj.t
        kk = it.choose([V.is_DictV(t), V.is_ListV(t), V.is_SetV(t), z3.Not(z3.Or(V.is_DictV(t), V.is_ListV(t), V.is_SetV(t)))], '.clear()')
        if kk == 0:
            if obj.ty == 'ImmutableDict':
                it.raise_('TypeError')
            return SV(V.NoneV), SV(const({}), obj.ty, obj.src)
        if kk == 1:
            return SV(V.NoneV), SV(V.ListV(z3.Empty(vals.SeqVal)), obj.ty, obj.src)
        if kk == 2:
            return SV(V.NoneV), SV(V.SetV(vals.EMPTY_HAS), obj.ty, obj.src)
        if it.feasible(V.is_ObjV(t)):
            raise Unsupported('.clear() of object')
        it.raise_('AttributeError')

    def dm_setdefault(self, it, obj, a, k):
        self._need(it, obj, V.is_DictV, '.setdefault()')
        t, key = obj.t, a[0].t
        default = it.as_val(a[1]) if len(a) > 1 else V.NoneV
        key = it.refine(key)
        if it.feasible(z3.Not(vals.is_key(key))):
            raise Unsupported('setdefault with a key that is neither a string nor an object')
        it.assume_axiom(vals.key_axiom(key))
        present = z3.Select(V.dhas(t), vals.ks(key))
        if it.branch(present, 'setdefault'):
            el = simp(z3.Select(V.dmap(t), vals.ks(key)))
            self.world.element_kind(it, el, O._elem_type(obj.ty))
            return SV(el, O._elem_type(obj.ty)), SV(t, obj.ty, obj.src)
        return SV(default, O._elem_type(obj.ty)), SV(simp(O.dict_store(t, key, default)), obj.ty, obj.src)

    def dm_update(self, it, obj, a, k):
        o0 = it.split_kind(obj)
        if O.ctor(it.refine(o0.t)) == 'SetV':
            # set.update(other set): union
            cur = it.refine(o0.t).arg(0)
            rty = obj.ty
            for x in a:
                xs = it.split_kind(x)
                if O.ctor(it.refine(xs.t)) != 'SetV':
                    raise Unsupported('set.update with a non-set argument')
                cur = z3.Map(z3.Or(z3.BoolVal(True), z3.BoolVal(False)).decl(), cur, it.refine(xs.t).arg(0))
                rty = rty or x.ty       # an untyped (empty literal) set takes the element type of what is merged in
            return SV(V.NoneV), SV(V.SetV(cur), rty, obj.src)
        self._need(it, obj, V.is_DictV, '.update()')
        if obj.ty == 'ImmutableDict':
            it.raise_('TypeError')
        t = obj.t
        cur = t
        if a:
            o = a[0].t
            if it.feasible(z3.Not(V.is_DictV(o))):
                raise Unsupported('dict.update with non-dict')
            cur = self.dict_merge(it, cur, o)
        for kk, v in k.items():
            cur = O.dict_store(cur, z3.StringVal(kk), it.as_val(v))
        return SV(V.NoneV), SV(simp(cur), obj.ty, obj.src)

    def dict_merge(self, it, d, o):
        """d.update(o): keys of o override; order: d's keys then o's new keys"""
        ln = simp(z3.Length(V.dkeys(o)))
        if z3.is_int_value(ln):
            cur = d
            for j in range(ln.as_long()):
                key = simp(V.s(V.dkeys(o)[j]))
                cur = O.dict_store(cur, key, z3.Select(V.dmap(o), key))
            return cur
        r = it.fresh('upd', Val)
        kx = z3.String('k!upd')
        i = z3.Int('i!upd')
        it.assume(V.is_DictV(r))
        it.assume(z3.ForAll([kx], z3.Select(V.dhas(r), kx) == z3.Or(z3.Select(V.dhas(d), kx), z3.Select(V.dhas(o), kx))))
        it.assume(z3.ForAll([kx], z3.Select(V.dmap(r), kx) == z3.If(z3.Select(V.dhas(o), kx), z3.Select(V.dmap(o), kx), z3.Select(V.dmap(d), kx))))
        it.assume(z3.ForAll([i], z3.Implies(z3.And(0 <= i, i < z3.Length(V.dkeys(r))),
                                            z3.And(V.is_StrV(V.dkeys(r)[i]), z3.Select(V.dhas(r), V.s(V.dkeys(r)[i]))))))
        it.assume(z3.Length(V.dkeys(r)) >= z3.Length(V.dkeys(d)))
        return r

    def dm_append(self, it, obj, a, k):
        self._need(it, obj, V.is_ListV, '.append()')
        new = V.ListV(z3.Concat(V.litems(obj.t), z3.Unit(it.as_val(a[0]))))
        return SV(V.NoneV), SV(simp(new), obj.ty, obj.src)

    def dm_extend(self, it, obj, a, k):
        self._need(it, obj, V.is_ListV, '.extend()')
        if isinstance(a[0], PV) and a[0].kind == 'genexp':
            other = self.world.loops.comprehension(it, a[0].data[0], 'list', a[0].data[1])
            seq = V.litems(other.t)
        else:
            seq = self.world.loops.iter_seq(it, a[0])
        return SV(V.NoneV), SV(simp(V.ListV(z3.Concat(V.litems(obj.t), seq))), obj.ty, obj.src)

    def dm_add(self, it, obj, a, k):
        self._need(it, obj, V.is_SetV, '.add()')
        x = it.refine(a[0].t)
        if it.feasible(z3.Not(vals.is_key(x))):
            raise Unsupported('set.add of a value that is neither a string nor an object')
        it.assume_axiom(vals.key_axiom(x))
        return SV(V.NoneV), SV(V.SetV(z3.Store(V.selems(obj.t), vals.ks(x), z3.BoolVal(True))), obj.ty, obj.src)

    def dm_remove(self, it, obj, a, k):
        t = obj.t
        kk = it.choose([V.is_ListV(t), V.is_SetV(t), z3.Not(z3.Or(V.is_ListV(t), V.is_SetV(t)))], '.remove()')
        if kk == 2:
            if it.feasible(V.is_ObjV(t)):
                raise Unsupported('.remove() of object')
            it.raise_('AttributeError')
        x = it.refine(a[0].t)
        if kk == 1:
            it.assume_axiom(vals.key_axiom(x))
            present = z3.And(vals.is_key(x), z3.Select(V.selems(t), vals.ks(x)))
            self.world.ops.outcome(it, [(z3.Not(present), 'KeyError'), (present, None)], 'set.remove')
            return SV(V.NoneV), SV(V.SetV(z3.Store(V.selems(t), vals.ks(x), z3.BoolVal(False))), obj.ty, obj.src)
        # list.remove: raises ValueError exactly when `x in list` is false (the same formula as the `in` operator); otherwise one
        # occurrence is removed (an over-approximation of "the first occurrence": sound for proving)
        items = V.litems(t)
        present = self.world.ops.contains(it, SV(t, obj.ty), a[0])
        self.world.ops.outcome(it, [(z3.Not(present), 'ValueError'), (present, None)], 'list.remove')
        idx = it.fresh('rmidx', z3.IntSort())
        n = z3.Length(items)
        it.assume(z3.And(0 <= idx, idx < n, O.pyeq(it.as_val(a[0]), items[idx])))
        new = z3.Concat(z3.SubSeq(items, 0, idx), z3.SubSeq(items, idx + 1, n - idx - 1))
        return SV(V.NoneV), SV(simp(V.ListV(new)), obj.ty, obj.src)

    def dm_discard(self, it, obj, a, k):
        self._need(it, obj, V.is_SetV, '.discard()')
        x = it.refine(a[0].t)
        it.assume_axiom(vals.key_axiom(x))
        new = z3.If(vals.is_key(x), V.SetV(z3.Store(V.selems(obj.t), vals.ks(x), z3.BoolVal(False))), obj.t)
        return SV(V.NoneV), SV(simp(new), obj.ty, obj.src)

    def dm_encode(self, it, obj, a, k):
        self._need(it, obj, V.is_StrV, '.encode()')
        enc = 'utf-8'
        if a:
            ea = simp(a[0].t)
            if vals.tag_of(ea) == 'StrV' and z3.is_string_value(simp(V.s(ea))):
                enc = simp(V.s(ea)).as_string()
            else:
                raise Unsupported('encode with computed codec')
        s = V.s(obj.t)
        if enc == 'ascii':
            self.world.ops.outcome(it, [(z3.Not(O.IS_ASCII(s)), 'UnicodeEncodeError'), (O.IS_ASCII(s), None)], 'encode ascii')
        r = it.fresh('enc', Val)
        it.assume(V.is_BytesV(r))
        return SV(r)

    def dm_decode(self, it, obj, a, k):
        if obj.ty == 'b64bytes':
            return SV(obj.t)      # text of a base64 encoding is ASCII: decode is the identity on the carrier
        o = it.split_kind(obj)
        if O.ctor(o.t) == 'BytesV' and a and vals.tag_of(simp(a[0].t)) == 'StrV' and z3.is_string_value(simp(V.s(simp(a[0].t)))) \
                and simp(V.s(simp(a[0].t))).as_string() == 'latin-1':
            # latin-1 decodes every byte string; the text is not modelled beyond its length
            L1 = self.world.uf('latin1!', [z3.SeqSort(IntS), StrS])
            r = L1(o.t.arg(0))
            it.assume_axiom(z3.Length(r) == z3.Length(o.t.arg(0)))
            return SV(V.StrV(r), 'str')
        if O.ctor(o.t) == 'BytesV' and (not a or (vals.tag_of(simp(a[0].t)) == 'StrV' and z3.is_string_value(simp(V.s(simp(a[0].t))))
                                                  and simp(V.s(simp(a[0].t))).as_string() in ('utf-8', 'utf8'))):
            # utf-8: either the text (not longer than the bytes) or UnicodeDecodeError
            U8OK = self.world.uf('utf8ok!', [z3.SeqSort(IntS), BoolS])
            U8 = self.world.uf('utf8!', [z3.SeqSort(IntS), StrS])
            b = o.t.arg(0)
            self.world.ops.outcome(it, [(z3.Not(U8OK(b)), 'UnicodeDecodeError'), (U8OK(b), None)], 'decode utf-8')
            it.assume_axiom(z3.Length(U8(b)) <= z3.Length(b))
            return SV(V.StrV(U8(b)), 'str')
        raise Unsupported('bytes.decode')

    def dm_strip(self, it, obj, a, k):
        o = it.split_kind(obj)
        if O.ctor(o.t) == 'BytesV':
            STRIP = self.world.uf('bstrip!', [z3.SeqSort(IntS), z3.SeqSort(IntS)])
            r = STRIP(o.t.arg(0))
            it.assume_axiom(z3.And(z3.Contains(o.t.arg(0), r), z3.Implies(z3.Length(o.t.arg(0)) == 0, z3.Length(r) == 0)))
            return SV(V.BytesV(r))
        self._need(it, obj, V.is_StrV, '.strip()')
        r = it.fresh('strip', Val)
        it.assume(V.is_StrV(r))
        it.assume(z3.Contains(V.s(obj.t), V.s(r)))
        return SV(r)

    def dm_startswith(self, it, obj, a, k):
        self._need(it, obj, V.is_StrV, '.startswith()')
        p = a[0].t
        if vals.tag_of(p) == 'TupleV':
            ln = simp(z3.Length(V.titems(p))).as_long()
            return SV(V.BoolV(z3.Or(*[z3.PrefixOf(V.s(simp(V.titems(p)[j])), V.s(obj.t)) for j in range(ln)])))
        return SV(V.BoolV(z3.PrefixOf(V.s(p), V.s(obj.t))))

    def dm_endswith(self, it, obj, a, k):
        self._need(it, obj, V.is_StrV, '.endswith()')
        p = a[0].t
        if vals.tag_of(p) == 'TupleV':
            ln = simp(z3.Length(V.titems(p))).as_long()
            return SV(V.BoolV(z3.Or(*[z3.SuffixOf(V.s(simp(V.titems(p)[j])), V.s(obj.t)) for j in range(ln)])))
        return SV(V.BoolV(z3.SuffixOf(V.s(p), V.s(obj.t))))

    def dm_split(self, it, obj, a, k):
        o = it.split_kind(obj)
        if O.ctor(o.t) == 'BytesV':
            return self._split_bytes(it, o, a)
        self._need(it, obj, V.is_StrV, '.split()')
        if len(a) == 1 and O.ctor(it.refine(a[0].t)) == 'StrV':
            # split(sep): only the case "separator does not occur" is modelled exactly
            if it.branch(z3.Contains(V.s(obj.t), it.refine(a[0].t).arg(0)), 'split'):
                raise Unsupported('str.split(sep) of a string containing the separator')
            return SV(V.ListV(vals.valseq([obj.t])), 'list:str')
        if len(a) != 2:
            raise Unsupported('str.split without separator and maxsplit')
        sep, mx = it.refine(a[0].t), it.refine(a[1].t)
        if O.ctor(mx) == 'IntV' and z3.is_int_value(simp(mx.arg(0))) and simp(mx.arg(0)).as_long() > 1 and O.ctor(sep) == 'StrV':
            # split(sep, n), n > 1: the pieces are not modelled, only their number (1..n+1) and kind
            n = simp(mx.arg(0)).as_long()
            FIRST = self.world.uf(f'split{n}_first!', [StrS, StrS, StrS])
            REST = self.world.uf(f'split{n}_rest!', [StrS, StrS, vals.SeqVal])
            rest = REST(V.s(obj.t), sep.arg(0))
            j = z3.Int('j!sp')
            it.assume_axiom(z3.And(z3.Length(rest) <= n,
                                   z3.ForAll([j], z3.Implies(z3.And(0 <= j, j < z3.Length(rest)), V.is_StrV(rest[j])),
                                             patterns=[rest[j]])))
            items = z3.Concat(z3.Unit(V.StrV(FIRST(V.s(obj.t), sep.arg(0)))), rest)
            return SV(V.ListV(items), 'list:str')
        if not (O.ctor(mx) == 'IntV' and z3.is_int_value(simp(mx.arg(0))) and simp(mx.arg(0)).as_long() == 1 and O.ctor(sep) == 'StrV'):
            raise Unsupported('str.split supports only split(sep, 1)')
        sv = V.s(obj.t)
        sp = sep.arg(0)
        if it.branch(z3.Contains(sv, sp), 'split'):
            # head / tail of the first occurrence: functions of (string, separator)
            H = self.world.uf('split_head!', [StrS, StrS, StrS])
            T = self.world.uf('split_tail!', [StrS, StrS, StrS])
            h, t = H(sv, sp), T(sv, sp)
            it.assume_axiom(z3.Implies(z3.Contains(sv, sp), z3.And(sv == z3.Concat(h, sp, t), z3.Not(z3.Contains(h, sp)))))
            return SV(V.ListV(vals.valseq([V.StrV(h), V.StrV(t)])), 'list:str')
        return SV(V.ListV(vals.valseq([V.StrV(sv)])), 'list:str')

    def _split_bytes(self, it, obj, a):
        """bytes.split(sep, 1)"""
        if len(a) != 2:
            raise Unsupported('bytes.split without maxsplit')
        sep, mx = it.refine(a[0].t), it.refine(a[1].t)
        if not (O.ctor(mx) == 'IntV' and z3.is_int_value(simp(mx.arg(0))) and simp(mx.arg(0)).as_long() == 1 and O.ctor(sep) == 'BytesV'):
            raise Unsupported('bytes.split supports only split(sep, 1)')
        sv, sp = obj.t.arg(0), sep.arg(0)
        S = z3.SeqSort(IntS)
        if it.branch(z3.Contains(sv, sp), 'split'):
            H = self.world.uf('bsplit_head!', [S, S, S])
            T = self.world.uf('bsplit_tail!', [S, S, S])
            h, t = H(sv, sp), T(sv, sp)
            it.assume_axiom(z3.Implies(z3.Contains(sv, sp), z3.And(sv == z3.Concat(h, sp, t), z3.Not(z3.Contains(h, sp)))))
            return SV(V.ListV(vals.valseq([V.BytesV(h), V.BytesV(t)])), 'list:bytes')
        return SV(V.ListV(vals.valseq([V.BytesV(sv)])), 'list:bytes')

    def dm_rpartition(self, it, obj, a, k):
        """s.rpartition(sep): three strings; exact only in what callers here use: head + sep + tail == s when sep occurs"""
        self._need(it, obj, V.is_StrV, '.rpartition()')
        sep = it.refine(a[0].t)
        if O.ctor(sep) != 'StrV':
            raise Unsupported('rpartition with a non-string separator')
        sv, sp = V.s(obj.t), sep.arg(0)
        H = self.world.uf('rpart_head!', [StrS, StrS, StrS])
        T = self.world.uf('rpart_tail!', [StrS, StrS, StrS])
        if it.branch(z3.Contains(sv, sp), 'rpartition'):
            h, t = H(sv, sp), T(sv, sp)
            it.assume_axiom(z3.Implies(z3.Contains(sv, sp), z3.And(sv == z3.Concat(h, sp, t), z3.Not(z3.Contains(t, sp)))))
            return SV(V.TupleV(vals.valseq([V.StrV(h), V.StrV(sp), V.StrV(t)])), 'tuple:str')
        return SV(V.TupleV(vals.valseq([V.StrV(z3.StringVal('')), V.StrV(z3.StringVal('')), V.StrV(sv)])), 'tuple:str')

    def dm_splitlines(self, it, obj, a, k):
        self._need(it, obj, V.is_StrV, '.splitlines()')
        LINES = self.world.uf('splitlines!', [StrS, vals.SeqVal])
        items = LINES(V.s(obj.t))
        j = z3.Int('j!sl')
        it.assume_axiom(z3.ForAll([j], z3.Implies(z3.And(0 <= j, j < z3.Length(items)), V.is_StrV(items[j])),
                                  patterns=[items[j]]))
        return SV(V.ListV(items), 'list:str')

    def dm_lower(self, it, obj, a, k):
        self._need(it, obj, V.is_StrV, '.lower()')
        LOWER = self.world.uf('lower!', [StrS, StrS])
        return SV(V.StrV(LOWER(V.s(obj.t))))

    def dm_replace(self, it, obj, a, k):
        self._need(it, obj, V.is_StrV, '.replace()')
        r = it.fresh('repl', Val)
        it.assume(V.is_StrV(r))
        return SV(r)

    def dm_join(self, it, obj, a, k):
        r = it.fresh('join', Val)
        it.assume(V.is_StrV(r))
        return SV(r)

    def dm_format(self, it, obj, a, k):
        r = it.fresh('fmt', Val)
        it.assume(V.is_StrV(r))
        return SV(r)


def _perms(n):
    import itertools
    return list(itertools.permutations(range(n)))


def _seqty(kind, src):
    ety = O._elem_type(src.ty) if isinstance(src, SV) else None
    return f'{kind}:{ety}' if ety else None
