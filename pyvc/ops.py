"""Encoded Python operations on `Val` terms (DESIGN 2.2).

Each operation is total: the exceptional outcomes are explicit (TypeError,
ZeroDivisionError, OverflowError, ValueError, KeyError, IndexError ...), taken
through `Interp.choose`, the value outcome is an if-then-else term over kinds.
"""
import ast
import z3

from . import vals
from .vals import V, Val, IntS, StrS, simp, const, num, FMAXR
from .engine import SV, PV, PyRaise, Unsupported, CLSOF

# uninterpreted helpers ------------------------------------------------------
STR2INT_OK = z3.Function('str2int_ok', StrS, z3.BoolSort())
STR2INT = z3.Function('str2int', StrS, IntS)
STR2FLOAT_OK = z3.Function('str2float_ok', StrS, z3.BoolSort())
STR2FLOAT = z3.Function('str2float', StrS, Val)
IS_ASCII = z3.Function('is_ascii', StrS, z3.BoolSort())
STR_OF = z3.Function('str_of', Val, StrS)        # str(x) / format text, opaque
REPR_OF = z3.Function('repr_of', Val, StrS)


def isnan(v):
    return V.is_NaN(v)


def isinf(v):
    return z3.Or(V.is_PInf(v), V.is_NInf(v))


def intlike(v):
    return z3.Or(V.is_BoolV(v), V.is_IntV(v), V.is_EnumV(v))


def ival(v):
    return z3.If(V.is_BoolV(v), z3.If(V.b(v), z3.IntVal(1), z3.IntVal(0)),
                 z3.If(V.is_EnumV(v), V.ecode(v), V.i(v)))


def sgn(v):
    """sign as real of an extended number"""
    return z3.If(V.is_PInf(v), z3.RealVal(1), z3.If(V.is_NInf(v), z3.RealVal(-1),
                 z3.If(num(v) > 0, z3.RealVal(1), z3.If(num(v) < 0, z3.RealVal(-1), z3.RealVal(0)))))


def too_big(v):
    """int operand that cannot be converted to float"""
    return z3.And(z3.Or(V.is_IntV(v), V.is_EnumV(v)), z3.Or(z3.ToReal(ival(v)) > FMAXR, z3.ToReal(ival(v)) < -FMAXR))


def py_floordiv_int(a, b):
    return z3.If(b > 0, a / b, (-a) / (-b))


def round_half_even(x):
    """real -> Int, python round()"""
    f = z3.ToInt(x)
    d = x - z3.ToReal(f)
    half = z3.RealVal('1/2')
    return z3.If(d < half, f, z3.If(d > half, f + 1, z3.If(f % 2 == 0, f, f + 1)))


def trunc(x):
    f = z3.ToInt(x)
    return z3.If(z3.Or(x >= 0, z3.ToReal(f) == x), f, f + 1)


def ext_lt(a, b):
    """a < b on extended numbers (nan unordered)"""
    return z3.If(z3.Or(isnan(a), isnan(b)), z3.BoolVal(False),
                 z3.If(V.is_NInf(a), z3.Not(V.is_NInf(b)),
                       z3.If(V.is_PInf(a), z3.BoolVal(False),
                             z3.If(V.is_PInf(b), z3.BoolVal(True),
                                   z3.If(V.is_NInf(b), z3.BoolVal(False), num(a) < num(b))))))


def ext_eq(a, b):
    return z3.If(z3.Or(isnan(a), isnan(b)), z3.BoolVal(False),
                 z3.If(z3.Or(isinf(a), isinf(b)),
                       z3.Or(z3.And(V.is_PInf(a), V.is_PInf(b)), z3.And(V.is_NInf(a), V.is_NInf(b))),
                       num(a) == num(b)))


def pyeq(a, b):
    """python == on values (never raises).  Nested containers compare
    structurally (mixed int/float inside containers is an approximation)"""
    fo = fast_order(a, b)
    if fo is not None:
        return fo[1]
    ca, cb = ctor(a), ctor(b)
    if ca is not None and cb is not None and not ({ca, cb} & {'EnumV'}):
        num_ = {'IntV', 'BoolV', 'FloatV', 'PInf', 'NInf', 'NaN'}
        if (ca in num_) != (cb in num_) or (ca not in num_ and ca != cb):
            return z3.BoolVal(False)
        if ca not in num_:
            return a == b
    both_num = z3.And(vals.is_numlike(a), vals.is_numlike(b))
    enum_str = z3.And(V.is_EnumV(a), V.is_StrV(b))
    str_enum = z3.And(V.is_StrV(a), V.is_EnumV(b))
    return z3.If(both_num, ext_eq(a, b),
                 z3.If(enum_str, V.ename(a) == V.s(b),
                       z3.If(str_enum, V.ename(b) == V.s(a), a == b)))


def ctor(t):
    """constructor name of a term that is syntactically a constructor application (no simplification)"""
    if z3.is_app(t) and t.sort() == Val:
        n = t.decl().name()
        if n in vals.CTORS:
            return n
    return None


def nk(t):
    """numeric view of a value with known constructor: ('int', Int term) / ('real', Real term) /
    ('pinf',) / ('ninf',) / ('nan',) / ('other',); None when the constructor is not known"""
    c = ctor(t)
    if c is None:
        return None
    if c == 'IntV':
        return ('int', t.arg(0))
    if c == 'BoolV':
        return ('int', z3.If(t.arg(0), z3.IntVal(1), z3.IntVal(0)))
    if c == 'EnumV':
        return ('int', t.arg(2))
    if c == 'FloatV':
        return ('real', t.arg(0))
    if c == 'PInf':
        return ('pinf',)
    if c == 'NInf':
        return ('ninf',)
    if c == 'NaN':
        return ('nan',)
    return ('other',)


def fast_order(a, b):
    """(lt, eq) as z3 Bools for two values with known numeric constructors, else None"""
    x, y = nk(a), nk(b)
    if x is None or y is None or x[0] == 'other' or y[0] == 'other':
        return None
    F, T = z3.BoolVal(False), z3.BoolVal(True)
    if x[0] == 'nan' or y[0] == 'nan':
        return F, F
    rank = {'ninf': 0, 'int': 1, 'real': 1, 'pinf': 2}
    if x[0] in ('int', 'real') and y[0] in ('int', 'real'):
        if x[0] == 'int' and y[0] == 'int':
            return x[1] < y[1], x[1] == y[1]
        xr = z3.ToReal(x[1]) if x[0] == 'int' else x[1]
        yr = z3.ToReal(y[1]) if y[0] == 'int' else y[1]
        return xr < yr, xr == yr
    rx, ry = rank[x[0]], rank[y[0]]
    return (T if rx < ry else F), (T if rx == ry else F)


I2F = z3.Function('i2f', IntS, z3.RealSort())
TWO53 = 2 ** 53


def i2f(it, i):
    """int -> float conversion with IEEE rounding: exact up to 2**53, beyond that some whole
    number within relative error 2**-53 (the only place where float rounding is modelled)"""
    r = I2F(i)
    ri = z3.ToReal(i)
    small = z3.And(i <= TWO53, i >= -TWO53)
    it.assume_axiom(z3.If(small, r == ri,
                          z3.And(z3.ToReal(z3.ToInt(r)) == r,
                                 (r - ri) * TWO53 <= z3.If(i >= 0, ri, -ri),
                                 (ri - r) * TWO53 <= z3.If(i >= 0, ri, -ri),
                                 z3.If(i >= 0, r >= TWO53, r <= -TWO53))))
    it.assume_axiom(z3.ToReal(z3.ToInt(r)) == r)
    # an int within the float range converts to a float within the range (larger ones raise OverflowError)
    it.assume_axiom(z3.Implies(z3.And(ri <= FMAXR, ri >= -FMAXR), z3.And(r <= FMAXR, r >= -FMAXR)))
    return r


def fnum(it, t):
    """real value of a finite operand in a float operation"""
    c = ctor(t)
    if c == 'IntV':
        return i2f(it, t.arg(0))
    if c == 'EnumV':
        return i2f(it, t.arg(2))
    return num(t)


class Ops:
    def __init__(self, world):
        self.world = world

    # ------------------------------------------------------------ truth
    def truthy(self, it, v):
        if isinstance(v, PV):
            return z3.BoolVal(True)
        return vals.truthy(v.t)

    # ------------------------------------------------------------ errors
    def outcome(self, it, conds_excs, why):
        """conds_excs: list of (cond, excname or None).  Chooses one; raises the
        exception or returns normally when excname is None."""
        k = it.choose([c for c, _ in conds_excs], why)
        exc = conds_excs[k][1]
        if exc is not None:
            it.raise_(exc)

    # ------------------------------------------------------------- binop
    def float_result(self, it, r):
        """a real result as a python float: overflow to +-inf is a fork, not an if-term"""
        r = simp(r)
        if it.mode == 'spec':
            # specification arithmetic is mathematical: no overflow
            return SV(V.FloatV(r))
        if it.no_float_overflow:
            # contract option assume_no_float_overflow: intermediate results stay within +-float_max (listed assumption)
            it.assume(z3.And(r <= FMAXR, r >= -FMAXR))
            return SV(V.FloatV(r))
        k = it.choose([r > FMAXR, r < -FMAXR, z3.And(r <= FMAXR, r >= -FMAXR)], 'float overflow')
        return SV([V.PInf, V.NInf, V.FloatV(r)][k])

    def num_binop(self, it, op, x, y):
        """arithmetic on two values with known numeric constructors; None if not applicable"""
        kx, ky = nk(x), nk(y)
        if kx is None or ky is None or kx[0] == 'other' or ky[0] == 'other':
            return None
        if not isinstance(op, (ast.Add, ast.Sub, ast.Mult, ast.Div)):
            return None
        if kx[0] == 'int' and ky[0] == 'int' and not isinstance(op, ast.Div):
            a, b = kx[1], ky[1]
            return SV(V.IntV(simp({ast.Add: a + b, ast.Sub: a - b, ast.Mult: a * b}[type(op)])))
        # float operation: an int operand is converted first (OverflowError when too large)
        for k_, t in ((kx, x), (ky, y)):
            if k_[0] == 'int' and ctor(t) != 'BoolV':
                big = z3.Or(z3.ToReal(k_[1]) > FMAXR, z3.ToReal(k_[1]) < -FMAXR)
                if isinstance(op, ast.Div) and ky[0] in ('int', 'real'):
                    pass
                self.outcome(it, [(big, 'OverflowError'), (z3.Not(big), None)], 'int too large for float')
        if isinstance(op, ast.Div) and ky[0] in ('int', 'real'):
            yz = (ky[1] == 0)
            self.outcome(it, [(yz, 'ZeroDivisionError'), (z3.Not(yz), None)], 'division by zero')
        if kx[0] == 'nan' or ky[0] == 'nan':
            return SV(V.NaN)
        # int -> float rounding is modelled for the additive conversion idiom (value + 0.0, value - x);
        # products and quotients are exact reals (assumption A1)
        conv = fnum if isinstance(op, (ast.Add, ast.Sub)) else (lambda it_, t: num(t))
        fx = conv(it, x) if kx[0] in ('int', 'real') else None
        fy = conv(it, y) if ky[0] in ('int', 'real') else None
        sx = {'pinf': 1, 'ninf': -1}.get(kx[0])
        sy = {'pinf': 1, 'ninf': -1}.get(ky[0])
        if isinstance(op, (ast.Add, ast.Sub)):
            if sy is not None and isinstance(op, ast.Sub):
                sy = -sy
            if sx is not None and sy is not None:
                return SV(V.NaN if sx != sy else (V.PInf if sx > 0 else V.NInf))
            if sx is not None or sy is not None:
                return SV(V.PInf if (sx or sy) > 0 else V.NInf)
            return self.float_result(it, fx + fy if isinstance(op, ast.Add) else fx - fy)
        if isinstance(op, ast.Mult):
            if sx is not None or sy is not None:
                # inf * 0 is nan; otherwise the sign product
                other, so = (fy, sx) if sx is not None else (fx, sy)
                if sx is not None and sy is not None:
                    return SV(V.PInf if sx * sy > 0 else V.NInf)
                k = it.choose([other == 0, other > 0, other < 0], 'inf * x')
                if k == 0:
                    return SV(V.NaN)
                return SV(V.PInf if (so > 0) == (k == 1) else V.NInf)
            if not (z3.is_rational_value(simp(fx)) or z3.is_rational_value(simp(fy))):
                it.nonlinear = True
            return self.float_result(it, fx * fy)
        # Div
        if sx is not None and sy is not None:
            return SV(V.NaN)
        if sy is not None:
            return SV(V.FloatV(z3.RealVal(0)))
        if sx is not None:
            k = it.choose([fy > 0, fy < 0], 'inf / x')
            return SV(V.PInf if (sx > 0) == (k == 0) else V.NInf)
        # (a * d) / d is a
        sfx, sfy = simp(fx), simp(fy)
        if z3.is_mul(sfx) and any(ch.eq(sfy) for ch in sfx.children()):
            rest = list(sfx.children())
            for j, ch in enumerate(rest):
                if ch.eq(sfy):
                    del rest[j]
                    break
            return self.float_result(it, rest[0] if len(rest) == 1 else z3.Product(*rest))
        # quotient as a fresh real tied by a product (avoids symbolic division in the solver)
        q = it.fresh('quot', z3.RealSort())
        if not z3.is_rational_value(simp(fy)):
            it.nonlinear = True
        it.assume_axiom(z3.Implies(fy != 0, q * fy == fx))      # definition of the fresh quotient
        return self.float_result(it, q)

    def binop(self, it, op, a, b, inplace=False):
        if isinstance(a, PV) or isinstance(b, PV):
            raise Unsupported('binary operation on function/class value')
        DUNDER = {ast.Div: '__truediv__', ast.Add: '__add__', ast.Sub: '__sub__', ast.Mult: '__mul__', ast.Mod: '__mod__',
                  ast.FloorDiv: '__floordiv__', ast.BitOr: '__or__', ast.BitAnd: '__and__'}
        if a.ty in self.world.classes and type(op) in DUNDER and \
                (f'{a.ty}.{DUNDER[type(op)]}' in self.world.contracts or self.world.defining_class(a.ty, DUNDER[type(op)])):
            # operator of a class instance: its method, under that method's contract
            return self.world.calls.call_method(it, a, a.ty, DUNDER[type(op)], [b], {}, None)
        a, b = it.split_kind(a), it.split_kind(b)
        x, y = a.t, b.t
        r = self.num_binop(it, op, x, y)
        if r is not None:
            return r
        nx, ny = vals.is_numlike(x), vals.is_numlike(y)
        bothnum = z3.And(nx, ny)
        bothint = z3.And(intlike(x), intlike(y))
        anynan = z3.Or(isnan(x), isnan(y))
        if isinstance(op, (ast.Add, ast.Sub)):
            add = isinstance(op, ast.Add)
            seqok = z3.BoolVal(False)
            if add:
                seqok = z3.Or(z3.And(V.is_StrV(x), V.is_StrV(y)), z3.And(V.is_TupleV(x), V.is_TupleV(y)),
                              z3.And(V.is_ListV(x), V.is_ListV(y)), z3.And(V.is_BytesV(x), V.is_BytesV(y)))
            else:
                seqok = z3.And(V.is_SetV(x), V.is_SetV(y))
            ovf = z3.And(bothnum, z3.Not(bothint), z3.Or(too_big(x), too_big(y)))
            self.outcome(it, [(z3.And(z3.Not(bothnum), z3.Not(seqok)), 'TypeError'),
                              (ovf, 'OverflowError'),
                              (z3.Or(z3.And(bothnum, z3.Not(ovf)), seqok), None)], 'add/sub')
            fx, fy = fnum(it, x), fnum(it, y)
            ry = fy if add else -fy
            yp, yn = (V.is_PInf(y), V.is_NInf(y)) if add else (V.is_NInf(y), V.is_PInf(y))
            fres = z3.If(z3.Or(anynan, z3.And(V.is_PInf(x), yn), z3.And(V.is_NInf(x), yp)), V.NaN,
                         z3.If(z3.Or(V.is_PInf(x), yp), V.PInf,
                               z3.If(z3.Or(V.is_NInf(x), yn), V.NInf, vals.mkfloat(fx + ry))))
            ires = V.IntV(ival(x) + (ival(y) if add else -ival(y)))
            res = z3.If(bothint, ires, fres)
            if add:
                res = z3.If(V.is_StrV(x), V.StrV(z3.Concat(V.s(x), V.s(y))),
                            z3.If(V.is_TupleV(x), V.TupleV(z3.Concat(V.titems(x), V.titems(y))),
                                  z3.If(V.is_ListV(x), V.ListV(z3.Concat(V.litems(x), V.litems(y))),
                                        z3.If(V.is_BytesV(x), V.BytesV(z3.Concat(V.by(x), V.by(y))), res))))
            else:
                i = z3.String('k!sd')
                diff = z3.Lambda([i], z3.And(z3.Select(V.selems(x), i), z3.Not(z3.Select(V.selems(y), i))))
                res = z3.If(V.is_SetV(x), V.SetV(diff), res)
            return SV(simp(res))
        if isinstance(op, ast.Mult):
            rep = z3.Or(z3.And(z3.Or(V.is_StrV(x), V.is_TupleV(x), V.is_ListV(x), V.is_BytesV(x)), intlike(y)),
                        z3.And(z3.Or(V.is_StrV(y), V.is_TupleV(y), V.is_ListV(y), V.is_BytesV(y)), intlike(x)))
            ovf = z3.And(bothnum, z3.Not(bothint), z3.Or(too_big(x), too_big(y)))
            k = it.choose([z3.And(z3.Not(bothnum), z3.Not(rep)), ovf, z3.And(bothnum, z3.Not(ovf)), rep], 'mult')
            if k == 0:
                it.raise_('TypeError')
            if k == 1:
                it.raise_('OverflowError')
            if k == 3:
                return self.repeat(it, a, b)
            zero_x = z3.And(vals.is_finite(x), num(x) == 0)
            zero_y = z3.And(vals.is_finite(y), num(y) == 0)
            nan = z3.Or(anynan, z3.And(isinf(x), zero_y), z3.And(isinf(y), zero_x))
            inf = z3.Or(isinf(x), isinf(y))
            s = sgn(x) * sgn(y)
            fres = z3.If(nan, V.NaN, z3.If(inf, z3.If(s > 0, V.PInf, V.NInf), vals.mkfloat(fnum(it, x) * fnum(it, y))))
            return SV(simp(z3.If(bothint, V.IntV(ival(x) * ival(y)), fres)))
        if isinstance(op, ast.Div):
            zero = z3.And(bothnum, vals.is_finite(y), num(y) == 0)
            ovf = z3.And(bothnum, z3.Or(too_big(x), too_big(y)))
            self.outcome(it, [(z3.Not(bothnum), 'TypeError'), (zero, 'ZeroDivisionError'),
                              (z3.And(z3.Not(zero), ovf), 'OverflowError'),
                              (z3.And(bothnum, z3.Not(zero), z3.Not(ovf)), None)], 'div')
            nan = z3.Or(anynan, z3.And(isinf(x), isinf(y)))
            fres = z3.If(nan, V.NaN,
                         z3.If(isinf(x), z3.If(sgn(x) * sgn(y) >= 0, V.PInf, V.NInf),
                               z3.If(isinf(y), V.FloatV(z3.RealVal(0)), vals.mkfloat(fnum(it, x) / fnum(it, y)))))
            return SV(simp(fres))
        if isinstance(op, (ast.FloorDiv, ast.Mod)):
            fin = z3.And(vals.is_finite(x), vals.is_finite(y))
            strfmt = z3.And(V.is_StrV(x), isinstance(op, ast.Mod))
            zero = z3.And(fin, num(y) == 0)
            k = it.choose([strfmt, z3.And(z3.Not(strfmt), z3.Not(bothnum)), zero,
                           z3.And(bothnum, z3.Not(fin)), z3.And(fin, z3.Not(zero))], 'floordiv/mod')
            if k == 0:
                r = it.fresh('fmt', Val)       # %-formatting: opaque text
                it.assume(V.is_StrV(r))
                return SV(r)
            if k == 1:
                it.raise_('TypeError')
            if k == 2:
                it.raise_('ZeroDivisionError')
            if k == 3:
                raise Unsupported('floor division / modulo with inf or nan')
            qi = py_floordiv_int(ival(x), ival(y))
            qf = z3.ToReal(z3.ToInt(num(x) / num(y)))
            if isinstance(op, ast.FloorDiv):
                return SV(simp(z3.If(bothint, V.IntV(qi), vals.mkfloat(qf))))
            return SV(simp(z3.If(bothint, V.IntV(ival(x) - ival(y) * qi), vals.mkfloat(num(x) - num(y) * qf))))
        if isinstance(op, ast.LShift):
            cx, cy = simp(x), simp(y)
            if z3.is_int_value(simp(V.i(cx))) and z3.is_int_value(simp(V.i(cy))):
                return SV(const(simp(V.i(cx)).as_long() << simp(V.i(cy)).as_long()))
            raise Unsupported('symbolic shift')
        if isinstance(op, ast.Pow):
            cy = simp(y)
            if vals.tag_of(cy) == 'IntV' and z3.is_int_value(simp(V.i(cy))) and simp(V.i(cy)).as_long() == 2:
                return self.binop(it, ast.Mult(), a, a)
            raise Unsupported('power')
        if isinstance(op, (ast.BitOr, ast.BitAnd)):
            bothset = z3.And(V.is_SetV(x), V.is_SetV(y))
            self.outcome(it, [(z3.Not(bothset), None), (bothset, None)], 'bitop')
            if not it.feasible(bothset):
                raise Unsupported('bit operation on non-sets')
            i = z3.String('k!sb')
            if isinstance(op, ast.BitOr):
                lam = z3.Lambda([i], z3.Or(z3.Select(V.selems(x), i), z3.Select(V.selems(y), i)))
            else:
                lam = z3.Lambda([i], z3.And(z3.Select(V.selems(x), i), z3.Select(V.selems(y), i)))
            return SV(V.SetV(lam))
        raise Unsupported(f'binary operator {type(op).__name__}')

    def repeat(self, it, a, b):
        x, y = a.t, b.t
        if not it.feasible(z3.Not(intlike(y))):
            seq, n = x, ival(y)
        else:
            seq, n = y, ival(x)
        tag = None
        for t, isf in (('StrV', V.is_StrV), ('TupleV', V.is_TupleV), ('ListV', V.is_ListV), ('BytesV', V.is_BytesV)):
            if not it.feasible(z3.Not(isf(seq))):
                tag = t
        if tag is None:
            raise Unsupported('repeat of unknown sequence kind')
        nn = z3.If(n > 0, n, 0)
        i = z3.Int('i!rep')
        if tag == 'StrV':
            r = it.fresh('rep', StrS)
            src = V.s(seq)
            it.assume_axiom(z3.Length(r) == nn * z3.Length(src))
            it.assume_axiom(z3.Implies(z3.Length(src) == 1, z3.ForAll([i], z3.Implies(
                z3.And(0 <= i, i < nn), z3.SubString(r, i, 1) == src))))
            return SV(V.StrV(r))
        if tag == 'BytesV':
            r = it.fresh('rep', z3.SeqSort(IntS))
            src = V.by(seq)
            it.assume_axiom(z3.Length(r) == nn * z3.Length(src))
            it.assume_axiom(z3.Implies(z3.Length(src) == 1, z3.ForAll([i], z3.Implies(
                z3.And(0 <= i, i < nn), r[i] == src[0]))))
            return SV(V.BytesV(r))
        r = it.fresh('rep', vals.SeqVal)
        src = V.titems(seq) if tag == 'TupleV' else V.litems(seq)
        it.assume_axiom(z3.Length(r) == nn * z3.Length(src))
        it.assume_axiom(z3.Implies(z3.Length(src) == 1, z3.ForAll([i], z3.Implies(
            z3.And(0 <= i, i < nn), r[i] == src[0]))))
        return SV(V.TupleV(r) if tag == 'TupleV' else V.ListV(r))

    def unop(self, it, op, v):
        v = it.split_kind(v)
        x = v.t
        if isinstance(op, (ast.USub, ast.UAdd)):
            self.outcome(it, [(z3.Not(vals.is_numlike(x)), 'TypeError'), (vals.is_numlike(x), None)], 'neg')
            if isinstance(op, ast.UAdd):
                return SV(simp(z3.If(intlike(x), V.IntV(ival(x)), x)))
            return SV(simp(z3.If(intlike(x), V.IntV(-ival(x)),
                                 z3.If(V.is_PInf(x), V.NInf, z3.If(V.is_NInf(x), V.PInf,
                                       z3.If(V.is_NaN(x), V.NaN, V.FloatV(-V.r(x))))))))
        raise Unsupported(f'unary {type(op).__name__}')

    # ----------------------------------------------------------- compare
    def compare(self, it, op, a, b):
        if isinstance(a, PV) or isinstance(b, PV):
            return self.compare_pv(it, op, a, b)
        x, y = a.t, b.t
        if isinstance(op, ast.Eq):
            return self.eq(it, a, b)
        if isinstance(op, ast.NotEq):
            return z3.Not(self.eq(it, a, b))
        if isinstance(op, ast.Is):
            return x == y
        if isinstance(op, ast.IsNot):
            return x != y
        if isinstance(op, (ast.Lt, ast.LtE, ast.Gt, ast.GtE)):
            rx, ry = it.refine(x), it.refine(y)
            if (ctor(rx) is None or ctor(ry) is None) and not it.feasible(z3.Not(z3.And(vals.is_numlike(x), vals.is_numlike(y)))):
                # both operands are numbers of a kind not yet fixed: order them without forking on the kinds
                lt, gt, eq = ext_lt(x, y), ext_lt(y, x), ext_eq(x, y)
                return {ast.Lt: lt, ast.LtE: z3.Or(lt, eq), ast.Gt: gt, ast.GtE: z3.Or(gt, eq)}[type(op)]
            a, b = it.split_kind(a), it.split_kind(b)
            x, y = a.t, b.t
            fo = fast_order(x, y)
            if fo is not None:
                lt, eq = fo
                gt = z3.And(z3.Not(lt), z3.Not(eq)) if not (nk(x)[0] == 'nan' or nk(y)[0] == 'nan') else z3.BoolVal(False)
                return simp({ast.Lt: lt, ast.LtE: z3.Or(lt, eq), ast.Gt: gt, ast.GtE: z3.Or(gt, eq)}[type(op)])
            bothnum = z3.And(vals.is_numlike(x), vals.is_numlike(y))
            bothstr = z3.And(V.is_StrV(x), V.is_StrV(y))
            bothset = z3.And(V.is_SetV(x), V.is_SetV(y))
            k = it.choose([bothnum, bothstr, bothset, z3.Not(z3.Or(bothnum, bothstr, bothset))], 'order')
            if k == 3:
                # tuples / lists of the same kind compare lexicographically: not modelled
                if it.feasible(z3.Or(z3.And(V.is_TupleV(x), V.is_TupleV(y)), z3.And(V.is_ListV(x), V.is_ListV(y)))):
                    raise Unsupported('ordering of sequences')
                it.raise_('TypeError')
            if k == 2:
                i = z3.String('k!ss')
                sub = z3.ForAll([i], z3.Implies(z3.Select(V.selems(x), i), z3.Select(V.selems(y), i)))
                sup = z3.ForAll([i], z3.Implies(z3.Select(V.selems(y), i), z3.Select(V.selems(x), i)))
                eqs = V.selems(x) == V.selems(y)
                return {ast.Lt: z3.And(sub, z3.Not(eqs)), ast.LtE: sub, ast.Gt: z3.And(sup, z3.Not(eqs)), ast.GtE: sup}[type(op)]
            if k == 1:
                sx, sy = V.s(x), V.s(y)
                return {ast.Lt: sx < sy, ast.LtE: sx <= sy, ast.Gt: sy < sx, ast.GtE: sy <= sx}[type(op)]
            lt, gt = ext_lt(x, y), ext_lt(y, x)
            eq = ext_eq(x, y)
            return {ast.Lt: lt, ast.LtE: z3.Or(lt, eq), ast.Gt: gt, ast.GtE: z3.Or(gt, eq)}[type(op)]
        if isinstance(op, (ast.In, ast.NotIn)):
            c = self.contains(it, b, a)
            return c if isinstance(op, ast.In) else z3.Not(c)
        raise Unsupported(f'comparison {type(op).__name__}')

    def compare_pv(self, it, op, a, b):
        if isinstance(op, (ast.Is, ast.Eq, ast.IsNot, ast.NotEq)):
            same = isinstance(a, PV) and isinstance(b, PV) and a.kind == b.kind and a.data == b.data
            if isinstance(a, PV) != isinstance(b, PV):
                # class value vs ClsV term
                pv, sv = (a, b) if isinstance(a, PV) else (b, a)
                if pv.kind == 'class':
                    c = z3.And(V.is_ClsV(sv.t), V.cid(sv.t) == it.cids.id(pv.data))
                    return c if isinstance(op, (ast.Is, ast.Eq)) else z3.Not(c)
                same = False
            return z3.BoolVal(same if isinstance(op, (ast.Is, ast.Eq)) else not same)
        raise Unsupported('comparison of function/class values')

    def eq(self, it, a, b):
        # objects of a class with a user-defined __eq__: an uninterpreted equivalence (reflexive, symmetric)
        w = self.world
        for x, y in ((a, b), (b, a)):
            if x.ty in w.classes and w.defining_class(x.ty, '__eq__') is not None:
                E = w.uf('obj_eq!', [IntS, IntS, z3.BoolSort()])
                i, j = V.oid(x.t), V.oid(y.t)
                it.assume_axiom(z3.And(E(i, i), E(j, j), E(i, j) == E(j, i)))
                both = z3.And(V.is_ObjV(x.t), V.is_ObjV(y.t))
                return z3.If(both, E(i, j), x.t == y.t)
        return pyeq(a.t, b.t)

    def contains(self, it, cont, item):
        cont = it.split_kind(cont)
        c, x = cont.t, item.t
        if ctor(it.refine(c)) == 'BytesV':
            item = it.split_kind(item)
            x = it.refine(item.t)
            if ctor(x) == 'BytesV':
                return z3.Contains(it.refine(c).arg(0), x.arg(0))
            if ctor(x) == 'IntV':
                return z3.Contains(it.refine(c).arg(0), z3.Unit(x.arg(0)))
            it.raise_('TypeError')
        k = it.choose([V.is_StrV(c), vals.is_seq(c), V.is_DictV(c), V.is_SetV(c),
                       z3.Not(z3.Or(V.is_StrV(c), vals.is_seq(c), V.is_DictV(c), V.is_SetV(c)))], 'in')
        if k == 0:
            self.outcome(it, [(z3.Not(V.is_StrV(x)), 'TypeError'), (V.is_StrV(x), None)], 'in str')
            return z3.Contains(V.s(c), V.s(x))
        if k == 1:
            items = vals.seqitems(c)
            n = simp(z3.Length(items))
            if z3.is_int_value(n):
                return z3.Or(*[pyeq(x, simp(items[j])) for j in range(n.as_long())]) if n.as_long() else z3.BoolVal(False)
            # exact for elements compared structurally; numeric cross-kind equality handled by pyeq
            jj = z3.Int('j!in')
            return z3.Exists([jj], z3.And(0 <= jj, jj < z3.Length(items), pyeq(x, items[jj])))
        if k == 2:
            if nonstring_keys(it, cont):
                item = it.split_kind(item)
            x = simp(it.refine(item.t))
            if ctor(it.refine(x)) in ('StrV', 'ObjV'):
                self.world.lazy_instantiate(it, c, vals.ks(it.refine(x)))
            if it.mode != 'spec':
                self.outcome(it, [(z3.Not(_hashable(x)), 'TypeError'), (_hashable(x), None)], 'in key')
            if not nonstring_keys(it, cont):
                # A4: the keys of this dict are strings, so nothing else is ever a member (True in {'a': ..} is False)
                return z3.And(V.is_StrV(x), z3.Select(V.dhas(c), V.s(x)))
            it.assume_axiom(vals.key_axiom(x))
            return z3.And(vals.is_key(x), z3.Select(V.dhas(c), vals.ks(x)))
        if k == 3:
            if it.mode != 'spec':
                self.outcome(it, [(z3.Not(_hashable(x)), 'TypeError'), (_hashable(x), None)], 'in elem')
            it.assume_axiom(vals.key_axiom(x))
            return z3.And(vals.is_key(x), z3.Select(V.selems(c), vals.ks(x)))
        if it.feasible(V.is_ObjV(c)):
            raise Unsupported('membership test on object')
        it.raise_('TypeError')

    # ------------------------------------------------------------ items
    def getitem(self, it, obj, idx):
        if isinstance(obj, PV):
            raise Unsupported('subscript of function/class value')
        obj = it.split_kind(obj)
        c, i = obj.t, idx.t
        elty = _elem_type(obj.ty)
        isseq = vals.is_seq(c)
        k = it.choose([isseq, V.is_DictV(c), V.is_StrV(c), V.is_BytesV(c),
                       z3.Not(z3.Or(isseq, V.is_DictV(c), V.is_StrV(c), V.is_BytesV(c)))], 'getitem')
        if k == 0:
            items = vals.seqitems(c)
            n = z3.Length(items)
            ii = ival(i)
            self.outcome(it, [(z3.Not(intlike(i)), 'TypeError'),
                              (z3.And(intlike(i), z3.Or(ii >= n, ii < -n)), 'IndexError'),
                              (z3.And(intlike(i), ii < n, ii >= -n), None)], 'index')
            pos = z3.If(ii >= 0, ii, n + ii)
            el = simp(vals.seq_at(items, simp(pos)))
            if obj.ty and obj.ty.startswith('tuple|') and z3.is_int_value(simp(ii)) and simp(ii).as_long() >= 0:
                tys = obj.ty.split('|')[1:]
                j = simp(ii).as_long()
                elty = tys[j] if j < len(tys) and tys[j] != '?' else None
            self.world.element_kind(it, el, elty)
            return SV(el, elty)
        if k == 1:
            if obj.ty and obj.ty.startswith('enumdict'):
                return self.world.calls.enum_getitem(it, obj, idx)
            if nonstring_keys(it, obj):
                idx = it.split_kind(idx)
            i = simp(it.refine(idx.t))
            if ctor(it.refine(i)) in ('StrV', 'ObjV'):
                self.world.lazy_instantiate(it, c, vals.ks(it.refine(i)))
            self.outcome(it, [(z3.Not(_hashable(i)), 'TypeError'),
                              (z3.And(_hashable(i), z3.Not(z3.And(vals.is_key(i), z3.Select(V.dhas(c), vals.ks(i))))), 'KeyError'),
                              (z3.And(vals.is_key(i), z3.Select(V.dhas(c), vals.ks(i))), None)], 'key')
            it.assume_axiom(vals.key_axiom(i))
            el = simp(z3.Select(V.dmap(c), vals.ks(it.refine(i))))
            self.world.element_kind(it, el, elty)
            return SV(el, elty)
        if k == 2:
            n = z3.Length(V.s(c))
            ii = ival(i)
            self.outcome(it, [(z3.Not(intlike(i)), 'TypeError'),
                              (z3.And(intlike(i), z3.Or(ii >= n, ii < -n)), 'IndexError'),
                              (z3.And(intlike(i), ii < n, ii >= -n), None)], 'index')
            pos = z3.If(ii >= 0, ii, n + ii)
            return SV(V.StrV(z3.SubString(V.s(c), pos, 1)))
        if k == 3:
            n = z3.Length(V.by(c))
            ii = ival(i)
            self.outcome(it, [(z3.Not(intlike(i)), 'TypeError'),
                              (z3.And(intlike(i), z3.Or(ii >= n, ii < -n)), 'IndexError'),
                              (z3.And(intlike(i), ii < n, ii >= -n), None)], 'index')
            pos = z3.If(ii >= 0, ii, n + ii)
            return SV(V.IntV(V.by(c)[pos]))
        if it.feasible(V.is_ObjV(c)):
            return self.world.calls.object_getitem(it, obj, idx)
        it.raise_('TypeError')

    def getslice(self, it, obj, lo, hi):
        obj = it.split_kind(obj)
        c = obj.t
        def norm(b, n, default):
            if b is None:
                return default
            bi = ival(b.t)
            bi = z3.If(bi < 0, z3.If(n + bi < 0, 0, n + bi), z3.If(bi > n, n, bi))
            return bi
        k = it.choose([V.is_StrV(c), V.is_TupleV(c), V.is_ListV(c), V.is_BytesV(c),
                       z3.Not(z3.Or(V.is_StrV(c), V.is_TupleV(c), V.is_ListV(c), V.is_BytesV(c)))], 'slice')
        if k == 4:
            if it.feasible(V.is_ObjV(c)):
                raise Unsupported('slice of object')
            it.raise_('TypeError')
        seq = [V.s(c), V.titems(c), V.litems(c), V.by(c)][k]
        if hi is None and lo is not None and k in (1, 2):
            # log[len(prefix):] where the log is literally prefix ++ rest: the slice is rest (ghost logs)
            parts = _concat_parts(simp(it.refine(seq)))
            start = simp(it.refine(ival(it.refine(lo.t))))
            for j in range(1, len(parts) + 1):
                plen = simp(z3.Sum(*[z3.Length(p) for p in parts[:j]])) if j > 1 else simp(z3.Length(parts[0]))
                if plen.eq(start):
                    rest = parts[j:]
                    sub = z3.Concat(*rest) if len(rest) > 1 else (rest[0] if rest else z3.Empty(seq.sort()))
                    return SV(simp([V.StrV, V.TupleV, V.ListV, V.BytesV][k](sub)), obj.ty)
        n = z3.Length(seq)
        a = norm(lo, n, z3.IntVal(0))
        b = norm(hi, n, n)
        ln = z3.If(b > a, b - a, 0)
        sub = z3.SubSeq(seq, a, ln)
        return SV(simp([V.StrV, V.TupleV, V.ListV, V.BytesV][k](sub)), obj.ty)

    def setitem(self, it, obj, idx, v):
        """returns the updated container value (value semantics)"""
        if isinstance(obj, PV):
            raise Unsupported('item assignment on function/class value')
        obj = it.split_kind(obj)
        c, i = obj.t, idx.t
        k = it.choose([V.is_DictV(c), V.is_ListV(c), z3.Not(z3.Or(V.is_DictV(c), V.is_ListV(c)))], 'setitem')
        if k == 0:
            if obj.ty == 'ImmutableDict':
                it.raise_('TypeError')
            self.outcome(it, [(z3.Not(_hashable(i)), 'TypeError'), (_hashable(i), None)], 'setitem key')
            i = simp(it.refine(i))
            if it.feasible(z3.Not(vals.is_key(i))):
                raise Unsupported('dict key that is neither a string nor an object (A4)')
            it.assume_axiom(vals.key_axiom(i))
            return SV(dict_store(c, it.refine(i), it.as_val(v)), obj.ty, obj.src)
        if k == 1:
            n = z3.Length(V.litems(c))
            ii = ival(i)
            self.outcome(it, [(z3.Not(intlike(i)), 'TypeError'),
                              (z3.And(intlike(i), z3.Or(ii >= n, ii < -n)), 'IndexError'),
                              (z3.And(intlike(i), ii < n, ii >= -n), None)], 'index')
            pos = z3.If(ii >= 0, ii, n + ii)
            items = V.litems(c)
            new = z3.Concat(z3.SubSeq(items, 0, pos), z3.Unit(it.as_val(v)), z3.SubSeq(items, pos + 1, n - pos - 1))
            return SV(V.ListV(new), obj.ty, obj.src)
        if it.feasible(V.is_ObjV(c)):
            return self.world.calls.object_setitem(it, obj, idx, v)
        it.raise_('TypeError')

    def delitem(self, it, obj, idx):
        c, i = obj.t, idx.t
        if it.feasible(z3.Not(V.is_DictV(c))):
            raise Unsupported('del on non-dict')
        present = z3.And(vals.is_key(i), z3.Select(V.dhas(c), vals.ks(i)))
        self.outcome(it, [(z3.Not(present), 'KeyError'), (present, None)], 'delitem')
        return SV(dict_remove(it, c, vals.ks(i)), obj.ty, obj.src)

    def unpack(self, it, v, n):
        if isinstance(v, PV):
            raise Unsupported('unpacking function/class value')
        v = it.split_kind(v)
        c = v.t
        elty = _elem_type(v.ty)
        isseq = vals.is_seq(c)
        k = it.choose([isseq, z3.Not(isseq)], 'unpack')
        if k == 1:
            # strings / dicts etc. could be unpacked too; treat via iteration
            seq = self.world.loops.iter_seq(it, v)
        else:
            seq = vals.seqitems(c)
        ln = z3.Length(seq)
        self.outcome(it, [(ln != n, 'ValueError'), (ln == n, None)], 'unpack len')
        tys = v.ty.split('|') if v.ty and v.ty.startswith('tuple|') else None
        out = []
        for j in range(n):
            ty = tys[j + 1] if tys and len(tys) > j + 1 else elty
            el = simp(vals.seq_at(seq, z3.IntVal(j)))
            self.world.element_kind(it, el, ty if ty != '?' else None)
            out.append(SV(el, ty if ty != '?' else None))
        return out

    # --------------------------------------------------------- attributes
    def getattr(self, it, obj, name, node=None):
        return self.world.calls.getattr(it, obj, name, node)

    def setattr(self, it, obj, name, v):
        return self.world.calls.setattr(it, obj, name, v)

    def fstring(self, it, e):
        """f-string: constant parts and plainly interpolated strings are exact, everything else is opaque text"""
        parts = e.values if isinstance(e, ast.JoinedStr) else [e]
        out = []
        for p in parts:
            if isinstance(p, ast.Constant):
                out.append(z3.StringVal(p.value))
                continue
            if p.conversion == -1 and p.format_spec is None:
                v = it.ev(p.value)
                if isinstance(v, SV):
                    v = it.split_kind(v)
                    if ctor(v.t) == 'StrV':
                        out.append(v.t.arg(0))
                        continue
                    out.append(STR_OF(v.t))
                    continue
            r = it.fresh('fstr', StrS)
            out.append(r)
        if not out:
            return SV(const(''))
        return SV(V.StrV(out[0] if len(out) == 1 else z3.Concat(*out)))

    def with_enter(self, it, cm, item):
        return self.world.calls.with_enter(it, cm, item)

    def with_exit(self, it, cm, tok):
        return self.world.calls.with_exit(it, cm, tok)


def nonstring_keys(it, cont):
    """the container is declared (static type `dict[obj]:T`, `set[obj]`, `dict[int]:T`) or visibly built with keys
    that are not strings: then the kind of a looked-up key matters and is split; otherwise keys are strings (A4)"""
    if cont.ty and any(t in cont.ty.split(':', 1)[0] for t in ('[obj]', '[int]', '[pair]')):
        return True
    c = it.refine(cont.t)
    if ctor(c) == 'DictV':
        try:
            from .vc import seq_elems
            return any(ctor(simp(e)) in ('IntV', 'ObjV') for e in seq_elems(c.arg(0)))
        except Exception:
            return False
    return False


def _concat_parts(seq):
    if z3.is_app(seq) and seq.decl().kind() == z3.Z3_OP_SEQ_CONCAT:
        out = []
        for ch in seq.children():
            out.extend(_concat_parts(ch))
        return out
    return [seq]


def _hashable(i):
    return z3.Not(z3.Or(V.is_ListV(i), V.is_DictV(i), V.is_SetV(i)))


def _elem_type(ty):
    """static element type of a typed container: 'dict:T', 'list:T', 'tuple:T', 'seq:T'"""
    if ty and ':' in ty and ty.split(':', 1)[0].split('[', 1)[0] in ('dict', 'list', 'tuple', 'seq', 'enumdict', 'set'):
        return ty.split(':', 1)[1]
    return None


def dict_store(c, keyval, val):
    """d[key] = val (insertion order kept; new key appended); keyval: the key as a Val (string or object) or a z3 String"""
    if keyval.sort() != Val:
        keyval = V.StrV(keyval)
    key = vals.ks(keyval)
    has = V.dhas(c)
    present = z3.Select(has, key)
    keys = z3.If(present, V.dkeys(c), z3.Concat(V.dkeys(c), z3.Unit(keyval)))
    return V.DictV(keys, z3.Store(has, key, z3.BoolVal(True)), z3.Store(V.dmap(c), key, val))


def dict_remove(it, c, key):
    keys = it.fresh('keys', vals.SeqVal)
    old = V.dkeys(c)
    i = z3.Int('i!dr')
    has = z3.Store(V.dhas(c), key, z3.BoolVal(False))
    # the remaining keys keep their order; only their membership is specified
    it.assume(z3.Length(keys) == z3.Length(old) - 1)
    it.assume(z3.ForAll([i], z3.Implies(z3.And(0 <= i, i < z3.Length(keys)),
                                        z3.And(vals.is_key(keys[i]), z3.Select(has, vals.ks(keys[i]))))))
    return V.DictV(keys, has, z3.Store(V.dmap(c), key, V.NoneV))
