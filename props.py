"""Per-property configuration of the checks (which contract files, bounded stand-ins, notes)."""

COMMON_TRUSTED = [
    'structural induction over datatype trees (container proofs use only the interface contract of their members)',
    'contracts of external callees (json, base64, socket, threading, mlzlog) are assumed',
]
DT_BOUNDED = lambda prop: dict(name=f'datatype catalogue ({prop})', script='bounded/dt_bounded.py', args={'prop': prop}, timeout=600)

def CB(name, contract_file, gens, keys=None, budget=120, **kw):
    """bounded stand-in: contracts evaluated natively over enumerated inputs (bounded/contract_bounded.py)"""
    return dict(name=name, script='bounded/contract_bounded.py',
                args={'contract_file': contract_file, 'gens': gens, 'keys': keys, 'budget': budget}, **kw)


PROPS = {
    'C01': dict(
        contract_files=['contracts/datatypes.py'],
        level='proof',
        trusted_base=COMMON_TRUSTED + ['Enum.__getitem__ view contract (name<->code bijection), validated by the bounded tier'],
        uncovered=['IEEE-754 rounding (floats are reals + inf/nan tags; only the int->float conversion of `int +/- float` rounds)',
                   'values outside the stated value universe (sets, arbitrary user objects with overloaded operators)',
                   'StructOf.check_type/__call__/validate/import_value and ScaledInteger.validate: bounded stand-in only '
                   '(dict-accumulating loops / mixed integer-real nonlinear arithmetic exceed the solver budget)'],
        bounded=[DT_BOUNDED('C01')],
    ),
    'C03': dict(
        contract_files=['contracts/datatypes.py'],
        level='proof',
        trusted_base=COMMON_TRUSTED,
        uncovered=['rebuild get_datatype(export_datatype(dt)) and copy(): bounded stand-in only so far (class-level property tables)',
                   'compatible() of enum/blob/string/array/tuple/struct/command: bounded stand-in only',
                   'units with $ substitution'],
        bounded=[DT_BOUNDED('C03')],
    ),
    'C04': dict(
        contract_files=['contracts/node.py'],
        level='proof',
        trusted_base=COMMON_TRUSTED + ['interface contracts of datatypes (proved per class under C01/C02)',
                                       'SecNode.get_module contract (C15)'],
        uncovered=['generated module classes are abstracted by symbolic accessible tables (ModInv); the generated check hooks'
                   ' of real class layouts are exercised by the bounded stand-in'],
        bounded=[CB('limit-layouts', 'contracts/linked.py', 'gens_linked', keys=['Dispatcher.handle_change'])],
    ),
    'C20': dict(
        contract_files=['contracts/logging.py'],
        level='proof',
        trusted_base=COMMON_TRUSTED + ['level tables of mlzlog (stated in the contract, validated bounded)'],
        uncovered=['Module.setRemoteLogging (parent walk over logger objects) and the dispatcher side of `logging` requests'],
        bounded=[CB('logging-contracts', 'contracts/logging.py', 'gens_logging')],
    ),
    'C18': dict(
        contract_files=['contracts/linked.py'],
        level='proof',
        trusted_base=COMMON_TRUSTED + ['descriptor access to limit parameters (getattr yields the current parameter value)'],
        uncovered=['struct/member cross-updates (extparams.StructParam) and the float parameter bound to an enum index (extparams.FloatEnumParam): bounded stand-ins over histories',
                   'control hand-over between modules driving one output (mixins.HasControlledBy / HasOutputModule): not covered',
                   'installation of check_<p> hooks in __init_subclass__: bounded stand-in over 6 class layouts'],
        bounded=[CB('limit-contracts', 'contracts/linked.py', 'gens_linked')],
    ),
    'C17': dict(
        contract_files=['contracts/persistent.py'],
        level='proof',
        trusted_base=COMMON_TRUSTED + ['file system abstracted by a ghost operation log; each operation happens entirely or raises OSError; os.rename atomic'],
        uncovered=['loading (loadPersistentData: per-entry tolerance, deep nesting), start-up precedence cfg > file > default, save -> load round trip of'
                   ' every datatype: bounded stand-ins only'],
        bounded=[CB('persistent-contracts', 'contracts/persistent.py', 'gens_persistent')],
    ),
    'C14': dict(
        contract_files=['contracts/statemachine.py'],
        level='proof',
        trusted_base=COMMON_TRUSTED + ['state / cleanup / transition functions are abstract callables (any result, any Exception; transition hooks do not raise)'],
        uncovered=['bound on the number of state calls per cycle (termination, A7); init flag seen exactly by the first call of a state;'
                   ' last-start-wins across interleavings with a second thread; status derivation of HasStates (frappy/states.py): bounded / not covered'],
        bounded=[CB('statemachine-contracts', 'contracts/statemachine.py', 'gens_statemachine')],
    ),
    'C19': dict(
        contract_files=['contracts/discovery.py'],
        level='proof',
        trusted_base=COMMON_TRUSTED + ['socket and json.loads contracts (json.loads raises only ValueError on texts up to 1024 characters)'],
        uncovered=['the 508 byte budget and well-formedness of answers (string / JSON theory): bounded stand-in only; start-up broadcast'],
        bounded=[CB('discovery-contracts', 'contracts/discovery.py', 'gens_discovery')],
    ),
    'C08': dict(
        contract_files=['contracts/events.py'],
        level='proof',
        trusted_base=COMMON_TRUSTED + ['conn.send_reply records the message and does not raise'],
        uncovered=['interleavings of poll-thread updates with activate/deactivate (the initial snapshot of handle_activate is not atomic'
                   ' with the module update lock): not within reach of sequential contracts; delivery to exactly the listeners: bounded'],
        bounded=[CB('event-contracts', 'contracts/events.py', 'gens_events')],
    ),
    'C09': dict(
        contract_files=['contracts/isolation.py'],
        level='proof',
        trusted_base=COMMON_TRUSTED + ['property machinery abstracted to plain fields; DataType.copy returns a fresh object'],
        uncovered=['merge of accessibles along the MRO (HasAccessibles.__init_subclass__), per-instance copies in Module.__init__,'
                   ' Property copies for bare-value overrides, run-time enum growth (mixins): bounded / not covered'],
        bounded=[CB('isolation-contracts', 'contracts/isolation.py', 'gens_isolation')],
    ),
    'C10': dict(
        contract_files=['contracts/config.py'],
        level='proof',
        trusted_base=COMMON_TRUSTED + ['parameter descriptor (setattr) and write_<p> methods abstract; hasDatatype / set_datatype abstract'],
        uncovered=['config DSL, property application and error aggregation (rejected as a whole), datainfo after overrides: not covered;'
                   ' writes exactly once before the first poll: bounded stand-in'],
        bounded=[CB('config-contracts', 'contracts/config.py', 'gens_config')],
    ),
    'C05': dict(
        contract_files=['contracts/updates.py'],
        level='proof',
        trusted_base=COMMON_TRUSTED + ['datatype conversion abstract (some finite float or any Exception); parameter callbacks do not touch the'
                                       ' parameter nor emit; updateCallback does not raise'],
        uncovered=['stated domain of the proof: float parameters (other value kinds: bounded stand-in on real modules)',
                   'interleavings of two updating threads (the contract states that the notification is issued while the update lock is held);'
                   ' PersistentMixin.loadParameters writing the cache outside announceUpdate'],
        bounded=[CB('update-contracts', 'contracts/updates.py', 'gens_updates')],
    ),
    'C12': dict(
        contract_files=['contracts/client.py'],
        level='proof',
        trusted_base=COMMON_TRUSTED + ['ProxyClient.callback abstract in the proof of updateValue (records the call, does not raise); CacheItem abstract'],
        uncovered=['the receive loop (reader thread): bounded stand-in on scripted connections only; reconnects, description changes, the write / read /'
                   ' command paths through the client over a real connection: not covered (whole-history property over two threads / processes)',
                   'ProxyClient.callback itself: bounded stand-in only (containers are modelled by value: iteration over a list that is'
                   ' mutated meanwhile is indistinguishable from iteration over a snapshot)'],
        bounded=[CB('client-contracts', 'contracts/client.py', 'gens_client')],
    ),
    'C16': dict(
        contract_files=['contracts/comm.py'],
        level='proof',
        trusted_base=COMMON_TRUSTED + ['recv() contract (bytes or an exception); JOIN defined through recv()'],
        uncovered=['request/reply pairing and discarding stale data (StringIO.communicate), reconnection (IOBase.check_connection): bounded stand-ins in'
                   ' virtual time only; BytesIO.communicate / multicomm delays: not covered',
                   'mutual exclusion of callers by the communicate lock: concurrency - no sequential contract in reach'],
        bounded=[CB('comm-contracts', 'contracts/comm.py', 'gens_comm', budget=120)],
    ),
    'C06': dict(
        contract_files=['contracts/events.py', 'contracts/describe.py'],
        level='proof',
        trusted_base=COMMON_TRUSTED + ['SecNode.get_module / make_update contracts; exported names are modules (node bookkeeping)'],
        uncovered=['description assembly (exactly the exported accessibles, strict JSON, stable), readonly / constant flags: bounded stand-in;'
                   ' datainfo accepts / rejects exactly what the node does is C03 + C01 on the same datatype object; interface classes, features,'
                   ' main-unit substitution: not covered; read / change / do of undescribed accessibles: proved under C04'],
        bounded=[CB('describe-contracts', 'contracts/describe.py', 'gens_describe')],
    ),
    'C13': dict(
        contract_files=['contracts/poller.py'],
        level='proof',
        trusted_base=COMMON_TRUSTED + ['read / poll functions abstract (any result, any Exception)'],
        uncovered=['the poll thread body (due-time computation, starvation freedom, staleness bounds): timing over unbounded loops is not'
                   ' under a deductive contract; bounded stand-in in virtual time'],
        bounded=[CB('poller-contracts', 'contracts/poller.py', 'gens_poller', budget=120)],
    ),
    'C15': dict(
        contract_files=['contracts/poller.py'],
        level='proof',
        trusted_base=COMMON_TRUSTED + ['threading.Event() returns a fresh object'],
        uncovered=['start-up order (initModule / startModule / interfaces) and shutdown in reverse order across server, secnode and'
                   ' threads: a whole-history ordering over several threads, no sequential contract expresses it; proved is only that'
                   ' initModule hands every module that is polled or has configured values to a poll thread; that this thread writes the'
                   ' configured values and does the initial reads of every handled module before the first poll is the bounded stand-in'],
        bounded=[CB('poller-contracts', 'contracts/poller.py', 'gens_poller', budget=120)],
    ),
    'C07': dict(
        contract_files=['contracts/protocol.py'],
        level='proof',
        trusted_base=COMMON_TRUSTED + ['decode_msg / encode_msg_frame string codec (assumed)'],
        uncovered=['codec inverse (string theory); send_reply line integrity under concurrent senders (send_lock)'],
        bounded=[CB('protocol-contracts', 'contracts/protocol.py', 'gens_protocol', budget=240)],
    ),
    'C02': dict(
        contract_files=['contracts/datatypes.py'],
        level='proof',
        trusted_base=COMMON_TRUSTED + ['codec axiom X1 (base64 decode(encode(b)) == b, encode output is valid base64), validated by the bounded tier',
                                       'json.dumps/loads round trip of NaN-free values (X2) is assumed'],
        uncovered=['text forms (to_string/from_string/format_value use ast.literal_eval, repr, %-formatting): bounded stand-in only',
                   'StructOf.export_value/import_value: bounded stand-in only'],
        bounded=[DT_BOUNDED('C02')],
    ),
}
