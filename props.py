"""Per-property configuration of the checks (which contract files, bounded stand-ins, notes)."""

COMMON_TRUSTED = [
    'structural induction over datatype trees (container proofs use only the interface contract of their members)',
    'contracts of external callees (json, base64, socket, threading, mlzlog) are assumed',
]

PROPS = {
    'C01': dict(
        contract_files=['contracts/datatypes.py'],
        level='proof',
        trusted_base=COMMON_TRUSTED + ['Enum.__getitem__ view contract (name<->code bijection), validated by the bounded tier'],
        uncovered=['IEEE-754 rounding (floats are reals + inf/nan tags)',
                   'values outside the stated value universe (arbitrary user objects with overloaded operators)'],
        explanation='',
    ),
}
