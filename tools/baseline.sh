#!/bin/sh
# runs the repository's pinned suite (hooks: none, so the guard is trivially off) and
# usage: baseline.sh [tree]   (default /repo)
# compares with the 301 stable tests of /root/.vp/BASELINE.json
OUT=$(mktemp /tmp/junit.XXXXXX.xml)
cd "${1:-/repo}" && /venv/bin/python -m pytest -ra -q -p no:cacheprovider --timeout=900 --continue-on-collection-errors --junitxml="$OUT" >/tmp/baseline.log 2>&1
python3 - "$OUT" <<'PY'
import json, sys, xml.etree.ElementTree as ET
base = set(json.load(open('/root/.vp/BASELINE.json'))['stable_pass'])
passed = set()
for tc in ET.parse(sys.argv[1]).getroot().iter('testcase'):
    if not any(ch.tag in ('failure', 'error', 'skipped') for ch in tc):
        passed.add(f"{tc.get('classname')}::{tc.get('name')}")
missing = sorted(base - passed)
print(f'baseline tests passing: {len(base & passed)}/{len(base)}')
for m in missing[:20]:
    print('MISSING', m)
sys.exit(1 if missing else 0)
PY
rc=$?
rm -f "$OUT"
exit $rc
