#!/usr/bin/env python3
"""consistency of MANIFEST.json, props.py, properties.jsonl, contract files, evidence and baselines (run before committing)"""
import json, os, sys
V = os.path.dirname(os.path.dirname(os.path.abspath(__file__)))
sys.path.insert(0, V)
import props
m = json.load(open(os.path.join(V, 'MANIFEST.json')))
allp = [json.loads(l)['id'] for l in open(os.path.join(V, 'properties.jsonl')) if l.strip()]
claimed = [c['property_id'] for c in m['checks']]
na = [e['property_id'] for e in m.get('not_applicable', [])]
bad = []
if sorted(claimed + na) != sorted(allp):
    bad.append(f'claimed + not_applicable != properties: {sorted(set(allp) ^ set(claimed + na))}')
for p in claimed:
    if p not in props.PROPS:
        bad.append(f'{p} claimed in MANIFEST but missing in props.py')
    else:
        for f in props.PROPS[p]['contract_files']:
            if not os.path.exists(os.path.join(V, f)):
                bad.append(f'{p}: contract file {f} missing')
        for b in props.PROPS[p].get('bounded', []):
            if not os.path.exists(os.path.join(V, b['script'])):
                bad.append(f'{p}: bounded script {b["script"]} missing')
            g = (b.get('args') or {}).get('gens')
            if g and not os.path.exists(os.path.join(V, 'bounded', g + '.py')):
                bad.append(f'{p}: generators bounded/{g}.py missing')
    if not os.path.exists(os.path.join(V, 'evidence', p + '.json')):
        bad.append(f'{p}: evidence file missing')
for p in props.PROPS:
    if p not in claimed:
        bad.append(f'{p} in props.py but not claimed in MANIFEST')
base = json.load(open(os.path.join(V, 'baseline_obligations.json')))
for p in claimed:
    if p not in base:
        bad.append(f'{p}: no committed baseline of obligations')
print('\n'.join(bad) or 'selfcheck ok: %d claimed, %d not applicable' % (len(claimed), len(na)))
sys.exit(1 if bad else 0)
