#!/usr/bin/env python3
"""Mutation / harmless-edit canaries (DESIGN 2.11): each edit is applied to a scratch copy of
/repo's frappy package (outside /repo and /verif, removed afterwards); the named check must
report a violation (kind=break) or stay green (kind=harmless).

usage: tools/canary.py [name-substring ...]      (runs all canaries of tools/canaries.json, or the matching ones)
       tools/canary.py --seed seeded/<id>        (applies a seeded patch and runs the check of its property)
"""
import json
import os
import shutil
import subprocess
import sys
import tempfile

VERIF = os.path.dirname(os.path.dirname(os.path.abspath(__file__)))


def scratch():
    d = tempfile.mkdtemp(prefix='canary-')
    for sub in ('frappy', 'frappy_demo', 'cfg', 'test'):
        if os.path.exists(os.path.join('/repo', sub)):
            shutil.copytree(os.path.join('/repo', sub), os.path.join(d, sub),
                            ignore=shutil.ignore_patterns('__pycache__', '*.pyc'))
    for f in ('setup.py',):
        if os.path.exists(os.path.join('/repo', f)):
            shutil.copy(os.path.join('/repo', f), d)
    return d


def run_check(d, prop, only=None, tier='quick'):
    env = dict(os.environ)
    env['VERIF_REPO'] = d
    cmd = [os.path.join(VERIF, 'check'), prop, '--tier', tier]
    if only:
        cmd += ['--only', only]
    p = subprocess.run(cmd, capture_output=True, text=True, env=env)
    return p.returncode, p.stdout + p.stderr


def main():
    args = sys.argv[1:]
    if args and args[0] == '--seed':
        sd = os.path.join(VERIF, args[1]) if not os.path.isabs(args[1]) else args[1]
        meta = json.load(open(os.path.join(sd, 'meta.json')))
        prop = args[2] if len(args) > 2 else meta['property']
        d = scratch()
        try:
            subprocess.run(['git', 'init', '-q'], cwd=d, check=True)
            subprocess.run(['git', 'apply', os.path.join(sd, 'patch.diff')], cwd=d, check=True)
            rc, out = run_check(d, prop, args[3] if len(args) > 3 else None)
            print(out[-3000:])
            print(f'SEED {args[1]} check {prop}: exit {rc}')
            return 0 if rc == 1 else 1
        finally:
            shutil.rmtree(d, ignore_errors=True)
    canaries = json.load(open(os.path.join(VERIF, 'tools', 'canaries.json')))
    bad = 0
    for c in canaries:
        if args and not any(a in c['name'] for a in args):
            continue
        d = scratch()
        try:
            path = os.path.join(d, c['file'])
            text = open(path).read()
            if text.count(c['old']) != 1:
                print(f"CANARY {c['name']}: pattern occurs {text.count(c['old'])} times - canary is stale")
                bad += 1
                continue
            open(path, 'w').write(text.replace(c['old'], c['new']))
            rc, out = run_check(d, c['prop'], c.get('only'))
            if c['kind'] == 'break':
                ok = rc == 1 and (c.get('expect', '') in out)
            else:
                ok = rc == 0
            print(f"CANARY {c['name']} [{c['kind']}]: exit {rc} -> {'ok' if ok else 'UNEXPECTED'}")
            if not ok:
                bad += 1
                print(out[-1500:])
        finally:
            shutil.rmtree(d, ignore_errors=True)
    return 1 if bad else 0


if __name__ == '__main__':
    sys.exit(main())
