#!/bin/sh
# runs every seeded change against the check of its property (scratch copies, see tools/canary.py); prints one line per seed
cd "$(dirname "$0")/.."
for d in seeded/*/; do
  id=$(basename $d)
  out=$(python3 tools/canary.py --seed seeded/$id 2>&1)
  rc=$(echo "$out" | grep "^SEED" | sed 's/.*exit //')
  by=$(echo "$out" | grep "^VIOLATION" | sed 's/.*obligation=//' | cut -c1-90 | head -3 | tr '\n' ';')
  echo "$id exit=$rc $by"
done
