#!/bin/sh
# usage: verify_seed.sh <dir with patch.diff demo.py meta.json> -- confirms in a scratch worktree of /repo:
# demo passes on the clean tree, patch applies, pinned tests still pass with it, demo fails with it
S=$(cd "$1" && pwd)
WT=$(mktemp -d /tmp/seedwt.XXXXXX)
rmdir "$WT"
git -C /repo worktree add -q "$WT" HEAD || exit 3
PYTHONPATH="$WT" /venv/bin/python "$S/demo.py" >"$WT.clean.out" 2>&1; c=$?
git -C "$WT" apply "$S/patch.diff" || { echo "PATCH DOES NOT APPLY"; git -C /repo worktree remove --force "$WT"; exit 3; }
"$(dirname "$0")/baseline.sh" "$WT" > "$WT.base.out" 2>&1; b=$?
PYTHONPATH="$WT" /venv/bin/python "$S/demo.py" >"$WT.mut.out" 2>&1; m=$?
git -C /repo worktree remove --force "$WT"
tail -2 "$WT.mut.out"; echo "clean_demo_exit=$c baseline_exit=$b ($(head -1 "$WT.base.out")) mutant_demo_exit=$m"
rm -f "$WT".clean.out "$WT".base.out "$WT".mut.out
[ $c -eq 0 ] && [ $b -eq 0 ] && [ $m -eq 1 ]
