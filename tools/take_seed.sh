#!/bin/sh
# usage: take_seed.sh <id> (e.g. C04-3): copies /tmp/seed-<id>/{patch.diff,demo.py,notes.txt} to seeded/<id>/, verifies the seed
# (tools/verify_seed.sh), runs the check of its property on a scratch copy with the patch applied (tools/canary.py --seed)
id=$1; cd "$(dirname "$0")/.."
mkdir -p seeded/$id
[ -f seeded/$id/patch.diff ] || cp /tmp/seed-$id/patch.diff /tmp/seed-$id/demo.py /tmp/seed-$id/notes.txt seeded/$id/ 2>/dev/null
[ -f seeded/$id/meta.json ] || printf '{"property": "%s"}\n' "${id%%-*}" > seeded/$id/meta.json
echo "== verify"; sh tools/verify_seed.sh seeded/$id || { echo "SEED NOT CONFIRMED"; exit 3; }
echo "== check"; python3 tools/canary.py --seed seeded/$id 2>&1 | grep -E "^(SEED|VIOLATION|C[0-9]+:)" | cut -c1-260
