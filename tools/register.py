#!/usr/bin/env python3
"""tools/register.py <id> <level> <text> <note>: add / replace the MANIFEST entry of a property (keeps not_applicable current)"""
import json, sys, os
VERIF = os.path.dirname(os.path.dirname(os.path.abspath(__file__)))
PENDING = 'not yet under contract in this round (no check registered); see DESIGN.md 9 for the planned contracts'
def main():
    pid, level, text, note = sys.argv[1:5]
    mp = os.path.join(VERIF, 'MANIFEST.json')
    m = json.load(open(mp))
    m['checks'] = [c for c in m['checks'] if c['property_id'] != pid]
    m['checks'].append({
        'property_id': pid, 'quick_cmd': f'./check {pid} --tier quick', 'thorough_cmd': f'./check {pid} --tier thorough',
        'evidence_file': f'evidence/{pid}.json', 'replay_cmd_template': f'./check {pid} --replay {{path}}', 'engine': 'pyvc',
        'level_claimed': {'category': level, 'text': text, 'design_ref': f'DESIGN.md 4/{pid}'},
        'level_note': note,
        'technique': 'contract-based deductive verification (AST->SMT VCs on the real functions, z3/cvc5); bounded stand-in where stated'})
    m['checks'].sort(key=lambda c: c['property_id'])
    claimed = {c['property_id'] for c in m['checks']}
    allp = [json.loads(l)['id'] for l in open(os.path.join(VERIF, 'properties.jsonl')) if l.strip()]
    na = {e['property_id']: e for e in m.get('not_applicable', [])}
    m['not_applicable'] = [na.get(p, {'property_id': p, 'reason': PENDING}) for p in allp if p not in claimed]
    json.dump(m, open(mp, 'w'), indent=1)
    print('claimed', sorted(claimed), 'n/a', [e['property_id'] for e in m['not_applicable']])
main()
