"""helper for native probes / replays: a minimal node (dispatcher + modules) built from the real classes"""
import sys
from test.test_modules import LoggerStub, ServerStub
from frappy.protocol.dispatcher import Dispatcher


class SecNodeStub:
    def __init__(self):
        self.modules = {}
        self.export = []
        self.name = 'node'

    def get_module(self, n):
        return self.modules.get(n)

    def add(self, m):
        self.modules[m.name] = m
        if m.export:
            self.export.append(m.name)


def make_node():
    srv = ServerStub({})
    log = LoggerStub()
    srv.secnode = SecNodeStub()
    srv.restart = srv.shutdown = lambda: None
    disp = Dispatcher('d', log, {}, srv)
    srv.dispatcher = disp
    return srv, log, disp
